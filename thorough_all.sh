#!/bin/sh
# usage: thorough_all.sh "<ids>"  -- thorough tier of the listed checks, one after the other, without touching evidence
cd /verif
for id in $1; do
  s=$(date +%s)
  out=$(VERIF_NOEVIDENCE=1 ./check $id --tier thorough 2>&1); rc=$?
  e=$(date +%s)
  echo "$id rc=$rc $((e-s))s $(echo "$out" | grep -E 'VIOLATION|MACHINERY|Error|Traceback' | head -3 | cut -c1-300)"
done
