#!/bin/sh
# usage: selftest_apply.sh <patch> <ID> [tier]   -- runs a check against a scratch copy of /repo with <patch> applied
set -e
D=$(mktemp -d /dev/shm/mut-XXXXXX)
rsync -a --exclude .git --exclude __pycache__ /repo/ "$D"/
( cd "$D" && git init -q . 2>/dev/null && git apply --whitespace=nowarn "$1" ) || { echo "patch failed"; rm -rf "$D"; exit 3; }
rm -rf "$D/.git"
cd /verif
VERIF_REPO="$D" VERIF_NOEVIDENCE=1 ./check "$2" --tier "${3:-quick}"
rc=$?
rm -rf "$D"
exit $rc
