#!/bin/sh
# usage: selftest_revert.sh <fix-commit> <ID> [tier] -- runs a check against a scratch copy of /repo with the fix commit reverted
D=$(mktemp -d /dev/shm/rev-XXXXXX)
rsync -a --exclude .git --exclude __pycache__ /repo/ "$D"/
git -C /repo show "$1" > "$D.diff"
( cd "$D" && git init -q . && git apply -R --whitespace=nowarn "$D.diff" ) || { echo "revert failed"; rm -rf "$D" "$D.diff"; exit 3; }
rm -rf "$D/.git" "$D.diff"
cd /verif
VERIF_REPO="$D" VERIF_NOEVIDENCE=1 ./check "$2" --tier "${3:-quick}"
rc=$?
rm -rf "$D"
exit $rc
