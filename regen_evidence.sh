#!/bin/sh
# runs every quick check on /repo and rewrites evidence/<id>.json; prints one line per check
cd /verif
for n in 01 02 03 04 05 06 07 08 09 10 11 12 13 14 15 16 17 18 19 20; do
  s=$(date +%s); out=$(./check C$n --tier quick 2>&1); rc=$?; e=$(date +%s)
  echo "C$n rc=$rc $((e-s))s $(echo "$out" | grep -E 'VIOLATION|MACHINERY|Traceback' | head -2 | cut -c1-200)"
done
