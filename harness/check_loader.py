"""C14: --skip_brute and --all_lower are pure restrictions.  Model: spec/Loader.tla; verdict: TrLoader.tla."""
import contextlib
import io
import json
import os
import random
import time
from concurrent.futures import ThreadPoolExecutor
from fractions import Fraction

from . import core, ptq, expand, session, rulesets

D = 8


def mc_stage():
    mod = os.path.join(core.SPEC, 'MC_Loader.tla')
    cfg = os.path.join(core.SPEC, 'MC_Loader.cfg')
    r = core.tlc_must_pass(mod, cfg, 'Loader', timeout=600, coverage=True)
    return {'cfg': 'MC_Loader.cfg', 'states': r.distinct, 'transitions': r.generated,
            'action_coverage': r.coverage(), 'wall_s': round(r.wall, 1)}, cfg


def export_files(mc_cfg):
    d = core.scratch('export')
    cfg = os.path.join(d, 'export.cfg')
    keep = [l for l in open(mc_cfg) if not l.strip().startswith(('INVARIANT', 'PROPERTY', 'SPECIFICATION', 'CHECK_DEADLOCK'))]
    with open(cfg, 'w') as f:
        f.write('SPECIFICATION ESpec\n' + ''.join(keep))
    out = os.path.join(d, 'files.json')
    r = core.tlc(os.path.join(core.SPEC, 'Export_Loader.tla'), cfg, workers=1, timeout=300,
                 env={'OUT_FILE': out}, deadlock=False)
    if not os.path.exists(out):
        raise core.MachineryError('file export failed:\n' + r.out[-2000:])
    with open(out) as f:
        fs = json.load(f)
    fs.sort(key=lambda x: json.dumps(x, sort_keys=True))
    return fs


def label_text(s):
    return ''.join('M' if c == 'M' else '%s%d' % (c, n) for c, n in s)


def parse_reps(reps):
    return [[r[0], int(r[1:]) if len(r) > 1 else 0] for r in reps]


def real_load(d, skip):
    from lib_guesser import grammar_io
    base = []
    noise = io.StringIO()
    with contextlib.redirect_stderr(noise), contextlib.redirect_stdout(noise):
        try:
            ok = bool(grammar_io._load_base_structures(base, d, skip, 'Grammar'))
        except Exception:
            ok = False
    out = []
    for b in base:
        fr = Fraction(b['prob']).limit_denominator(64)
        out.append({'s': parse_reps(b['replacements']), 'p': [fr.numerator, fr.denominator],
                    'exact': abs(float(fr) - b['prob']) <= 1e-12})
    return ok, out


def load_trace(tid, f, skip, work, kind='load'):
    """kind 'load' (C14): the real load under the flag AND the real default load of the same file (the reference the
    property is relative to); kind 'insert' (C03): the real default load against the file as written"""
    d = os.path.join(work, 'l%s%d' % (kind[0], tid))
    os.makedirs(os.path.join(d, 'Grammar'))
    with open(os.path.join(d, 'Grammar', 'grammar.txt'), 'w') as fh:
        for ln in f:
            fh.write('%s\t%s\n' % (label_text(ln['s']), repr(ln['w'] / D)))
    ok, out = real_load(d, skip)
    dok, dout = real_load(d, False)
    return {'tid': tid, 'kind': kind, 'D': D, 'file': f, 'skip': skip, 'ok': ok, 'out': out, 'dok': dok, 'defout': dout}


def insertion_stage(verdict):
    """(C03, C02) the guesser's loader gives every alpha variable of a base structure its own case-mask variable
    (Loader.tla InsLoop = InsertC): every file of the Loader model space through the real default load, against the file as written"""
    lmc, lcfg = mc_stage()
    files = export_files(lcfg)
    work = core.scratch('insert')
    itraces, imeta = [], {}
    for i, f in enumerate(files, 1):
        if not any(x['s'][0][0] != 'M' for x in f):
            continue
        itraces.append(load_trace(i, f, False, work, kind='insert'))
        imeta[i] = {'check': 'loader gives every alpha variable its case mask',
                    'file': [[label_text(x['s']), x['w']] for x in f]}
    iv, ist = core.validate_traces('TrLoader.tla', itraces, chunk=400, timeout=600)
    for t in itraces:
        v = iv[t['tid']]
        if v[0] != 'ACCEPT':
            m = imeta[t['tid']]
            verdict.violation(dict(m, clause=v[2], failing=[v[2]], loaded=[x['s'] for x in t['defout']]),
                              'clause %s; %s' % (v[2], core.short(m, 260)))
    return {'files_of_Loader_model_space_loaded': len(itraces), 'Loader_model_checking': lmc, 'trace_validation': ist}


def pm_of(path):
    for v, p in rulesets.neutral_value_prob(os.path.join(path, 'Grammar', 'grammar.txt')):
        if v == 'M':
            return float(p)
    return 0.0


def stream_of(pcfg):
    """emitted pre-terminals as (key, prob, is_markov); key = [types, occurrence number of this
    replacement list among the base structures (file order), group indices]"""
    occ = {}
    seen = {}
    for b in pcfg.base:
        reps = tuple(b['replacements'])
        seen[reps] = seen.get(reps, 0) + 1
        occ.setdefault((reps, b['prob']), []).append(seen[reps])
    used = {}
    hist = ptq.run_history(pcfg, [], with_queue=False)
    evs = []
    for it, _ in hist['sessions'][0]['ev']:
        reps = tuple(t for t, _ in it['pt'])
        idx = tuple(i for _, i in it['pt'])
        cands = occ[(reps, it['base_prob'])]
        c = used.get((reps, it['base_prob'], idx), 0)
        used[(reps, it['base_prob'], idx)] = c + 1
        key = [list(reps), cands[c % len(cands)], list(idx)]
        evs.append((key, it['prob'], any(t == 'M' for t in reps)))
    return evs


def cluster_ranks(values, tol=1e-12):
    """dense ranks with values closer than relative `tol` sharing a rank (float noise is a tie)"""
    rk = {}
    r = 0
    prev = None
    for v in sorted(values):
        if prev is None or v > prev * (1 + tol) + 5e-324:
            r += 1
        rk[v] = r
        prev = v
    return rk


def stream_trace(tid, path, desc):
    default = stream_of(ptq.load_pcfg(path))
    ok = True
    try:
        skp = stream_of(ptq.load_pcfg(path, skip_brute=True))
    except Exception:
        ok, skp = False, []
    pm = pm_of(path)
    rd = cluster_ranks({p for _, p, _ in default})
    rs = cluster_ranks({p for _, p, _ in skp})
    dmap = {}
    for k, p, m in default:
        dmap.setdefault(json.dumps(k), p)
    if len(default) > 300:
        return None
    t = {'tid': tid, 'kind': 'stream', 'ok': ok,
         'def': [{'key': k, 'r': rd[p], 'm': m} for k, p, m in default],
         'skp': []}
    for k, p, m in skp:
        ref = dmap.get(json.dumps(k))
        # relative 1e-9, with an absolute floor for the denormal range where products lose all precision
        scaled = ref is not None and (p == ref / (1.0 - pm) or abs(p - ref / (1.0 - pm)) <= 1e-9 * max(p, ref / (1.0 - pm)) + 1e-300)
        t['skp'].append({'key': k, 'r': rs[p], 'dr': rd.get(ref, 0), 'm': m, 'scaled': bool(scaled)})
    return t


def grammar_view(pcfg):
    floats = set()
    for t, groups in pcfg.grammar.items():
        for g in groups:
            floats.add(g['prob'])
    for b in pcfg.base:
        floats.add(b['prob'])
    rk = {v: i + 1 for i, v in enumerate(sorted(floats))}
    g = []
    for t in sorted(pcfg.grammar):
        cat = t[0]
        n = int(t[1:]) if len(t) > 1 else 0
        groups = []
        for gr in pcfg.grammar[t]:
            v = [list(x) if cat == 'C' else expand.cps(x) for x in gr['values']]
            groups.append({'v': v, 'r': rk[gr['prob']] if cat != 'C' else 0, 'one': gr['prob'] == 1.0})
        g.append({'t': [cat, n], 'groups': groups})
    b = [{'s': parse_reps(x['replacements']), 'r': rk[x['prob']]} for x in pcfg.base]
    return g, b


def lower_guess_traces(tid0, path, desc, meta):
    """--all_lower at the level of the emitted strings: every pre-terminal of the all-lower grammar must spell exactly what the
    DEFAULT grammar spells for it when each of its case masks is the all-lower one ("and nothing else changes" - digits,
    symbols, walks, context strings keep their capitals).  The reference is the default load with its mask lists replaced
    in memory."""
    ref = ptq.load_pcfg(path)
    low = ptq.load_pcfg(path, skip_case=True)
    for t in list(ref.grammar):
        if t[0] == 'C':
            ref.grammar[t] = [{'values': ['L' * int(t[1:])], 'prob': 1.0}]
    out = []
    tid = tid0
    n = 0
    for b, pt in expand.all_pts(low):
        if any(t[0] == 'M' for t, _ in pt):
            continue
        got, _ = expand.expand_real(low, pt)
        want, _ = expand.expand_real(ref, pt)
        n += len(want)
        if n > 4000:
            break
        tid += 1
        out.append({'tid': tid, 'kind': 'lines', 'lines': [expand.cps(x) for x in got], 'ref': [expand.cps(x) for x in want]})
        meta[tid] = dict(desc, check='strings spelled under --all_lower', pt=[list(x) for x in pt], got_head=got[:3], want_head=want[:3])
    return out, tid


def lower_trace(tid, path):
    a = ptq.load_pcfg(path)
    b = ptq.load_pcfg(path, skip_case=True)
    # shared rank table: ranks must be comparable across the two loads
    floats = set()
    for pc in (a, b):
        for t, groups in pc.grammar.items():
            if t[0] != 'C':
                floats.update(g['prob'] for g in groups)
        floats.update(x['prob'] for x in pc.base)
    rk = {v: i + 1 for i, v in enumerate(sorted(floats))}

    def view(pc):
        g = []
        for t in sorted(pc.grammar):
            cat = t[0]
            n = int(t[1:]) if len(t) > 1 else 0
            groups = []
            for gr in pc.grammar[t]:
                v = [list(x) if cat == 'C' else expand.cps(x) for x in gr['values']]
                groups.append({'v': v, 'r': rk[gr['prob']] if cat != 'C' else 0, 'one': gr['prob'] == 1.0})
            g.append({'t': [cat, n], 'groups': groups})
        bs = [{'s': parse_reps(x['replacements']), 'r': rk[x['prob']]} for x in pc.base]
        return g, bs
    gd, bd = view(a)
    gl, bl = view(b)
    return {'tid': tid, 'kind': 'lower', 'gdef': gd, 'glow': gl, 'bdef': bd, 'blow': bl}


def special_rulesets(work):
    """Markov structure first / middle / last / absent / alone"""
    out = []
    term = {'A2': [('ab', 0.5), ('cd', 0.25)], 'C2': [('LL', 0.75), ('UL', 0.25)], 'D1': [('1', 0.5), ('2', 0.5)]}
    shapes = {
        'm_first': [('M', 0.5), ('A2', 0.25), ('A2D1', 0.25)],
        'm_middle': [('A2', 0.5), ('M', 0.25), ('A2D1', 0.25)],
        'm_last': [('A2', 0.5), ('A2D1', 0.25), ('M', 0.25)],
        'm_absent': [('A2', 0.5), ('A2D1', 0.5)],
        'm_alone': [('M', 1.0)],
        'm_tiny': [('A2', 0.5), ('D1A2', 0.4999999), ('M', 1e-7)],
    }
    for name, base in shapes.items():
        d = os.path.join(work, name)
        rulesets.write_ruleset(d, term, base, omen_prob=[(1, 0.5), (2, 0.25)], omen_keyspace=[(1, 1), (2, 1)])
        out.append((d, {'kind': name, 'base': base}))
    # capitals OUTSIDE the letters the masks apply to (walks typed with shift, context strings) in front of and behind a word
    termu = dict(term, K4=[('1QAZ', 0.5), ('!QAZ', 0.25), ('zaq1', 0.25)], X1=[('No.1', 0.5), ('Mr.', 0.5)], O1=[('!', 1.0)])
    d = os.path.join(work, 'capitals_outside_words')
    base = [('K4A2', 0.5), ('X1A2', 0.25), ('A2K4', 0.125), ('K4A2O1', 0.125)]
    rulesets.write_ruleset(d, termu, base, omen_prob=[(1, 0.5), (2, 0.25)], omen_keyspace=[(1, 1), (2, 1)])
    out.append((d, {'kind': 'capitals_outside_words', 'base': base}))
    # a variable with several groups to the RIGHT of one that has a single group (every mask list under --all_lower): a restored
    # session must walk on past the exhausted position
    termr = dict(termu, D1=[('1', 0.5), ('2', 0.3), ('3', 0.2)])
    d = os.path.join(work, 'groups_right_of_masks')
    base = [('A2K4', 0.5), ('A2D1', 0.25), ('D1A2', 0.125), ('M', 0.125)]
    rulesets.write_ruleset(d, termr, base, omen_prob=[(1, 0.5), (2, 0.25)], omen_keyspace=[(1, 1), (2, 1)])
    out.append((d, {'kind': 'groups_right_of_masks', 'base': base}))
    # a dominant Markov structure next to ONE structure whose terminals all have probability 1: p / (1 - P(M)) rounds to a float
    # just above 1.0 (0.1 / (1.0 - 0.9) = 1.0000000000000002) - the rescaled pre-terminal must still be emitted
    term1 = {'A2': [('ab', 1.0)], 'C2': [('LL', 1.0)], 'D1': [('7', 1.0)]}
    for name, base in (('m_heavy_09', [('M', 0.9), ('A2', 0.1)]), ('m_heavy_08', [('M', 0.8), ('D1', 0.2)]),
                       ('m_heavy_07', [('M', 0.7), ('A2D1', 0.3)])):
        d = os.path.join(work, name)
        rulesets.write_ruleset(d, term1, base, omen_prob=[(1, 0.5), (2, 0.25)], omen_keyspace=[(1, 1), (2, 1)])
        out.append((d, {'kind': name, 'base': base}))
    return out


def main(pid, tier, seed):
    t0 = time.time()
    rng = random.Random(seed)
    verdict = core.Verdict(pid)
    mc, mc_cfg = mc_stage()
    work = core.scratch('rules')
    traces, meta = [], {}
    tid = 0

    # ---- spec -> code: every file of the model space through the real loader, both flags ----
    files = export_files(mc_cfg)
    for f in files:
        for skip in (False, True):
            tid += 1
            traces.append(load_trace(tid, f, skip, work))
            meta[tid] = {'kind': 'load', 'file': [[label_text(x['s']), x['w']] for x in f], 'skip_brute': skip}

    # ---- code -> spec: streams of the real queue ----
    rdirs = special_rulesets(work)
    n_lower_strings = [0]
    for k in range(25 if tier == 'quick' else 1200):
        d = os.path.join(work, 'f%d' % k)
        desc = ptq.random_float_ruleset(rng, d, normalize_base=True)
        rdirs.append((d, {'kind': 'float_ruleset', 'base': desc['base']}))
    from . import shapes
    rdirs += [(d_, dict(desc_, kind=desc_.get('kind', desc_.get('shape')))) for d_, desc_ in shapes.all_special(rng, work)]
    for d, desc in rdirs:
        stt = stream_trace(tid + 1, d, desc)
        if stt is not None:
            tid += 1
            traces.append(stt)
            meta[tid] = dict(desc, check='stream')
        try:
            lt = lower_trace(tid + 1, d)
        except Exception as ex:
            lt = None
        if lt is not None:
            tid += 1
            traces.append(lt)
            meta[tid] = dict(desc, check='all_lower loader')
        if n_lower_strings[0] < (6000 if tier == 'quick' else 200000):
            try:
                lg, tid = lower_guess_traces(tid, d, desc, meta)
            except Exception:
                lg = []
            traces += lg
            n_lower_strings[0] += sum(len(t_['ref']) for t_ in lg)

    # ---- the shipped rulesets' base-structure lists (more than ten thousand lines with every label shape real data produces)
    # ---- through the real loader: every line becomes its variables with a case mask after every alpha variable (InsertC), with
    # ---- and without --skip_brute, for the Grammar and the Prince folder
    import re as _re
    n_shipped_lines = 0
    for rname in (('Default',) if tier == 'quick' else ('Default', 'Russian')):
        d = os.path.join(core.REPO, 'Rules', rname)
        for folder in ('Grammar', 'Prince'):
            fnm = os.path.join(d, folder, 'grammar.txt')
            if not os.path.exists(fnm):
                continue
            recs = rulesets.neutral_value_prob(fnm)
            for skip in (False, True):
                try:
                    pc = ptq.load_pcfg(d, folder=folder, skip_brute=skip)
                except Exception:
                    continue        # (--skip_brute on a list without M is the fixed finding F3a's business, covered above)
                kept = [(v, p_) for v, p_ in recs if not (skip and 'M' in v)]
                labels = [[[m_.group(1), int(m_.group(2) or 0)] for m_ in _re.finditer(r'([A-Z])([0-9]*)', v)] for v, _ in kept]
                loaded = [parse_reps(b['replacements']) for b in pc.base]
                tid += 1
                traces.append({'tid': tid, 'kind': 'structs', 'labels': labels, 'loaded': loaded})
                meta[tid] = {'kind': 'shipped ruleset %s/%s' % (rname, folder), 'skip_brute': skip, 'check': 'shipped base structures as loaded',
                             'lines': len(kept), 'base': [[v, 0] for v, _ in kept[:6]]}
                n_shipped_lines += len(kept)

    # ---- flags come from the save file on --load (real command line) ----
    rcopy = core.repo_copy('cli')
    jobs = []
    heavy = [x for x in rdirs if str(x[1].get('kind', '')).startswith('m_heavy')][:3]     # p / (1 - P(M)) rounding above 1.0
    extra_ = [x for x in rdirs if x[1].get('kind') in ('capitals_outside_words', 'groups_right_of_masks')]
    cli_sets = (rdirs[:6] + [x for x in heavy + extra_ if x not in rdirs[:6]]) if tier == 'quick' else rdirs[:6] + [x for x in extra_ if x not in rdirs[:40]] + rdirs[6:40]
    for k, (d, desc) in enumerate(cli_sets):
        name = 'v%d' % k
        os.symlink(d, os.path.join(rcopy, 'Rules', name))
        for flags in (['--skip_brute'], ['--all_lower'], ['--skip_brute', '--all_lower']):
            kw = {'skip_brute': '--skip_brute' in flags, 'skip_case': '--all_lower' in flags}
            try:
                ref = session.run_session(ptq.load_pcfg(d, save_file=os.path.join(d, 'x.sav'), **kw),
                                          session.new_save_config(), os.path.join(d, 'x.sav'))['lines']
            except Exception:
                continue   # loader failure under the flag is reported by the stream trace
            if len(ref) > 1500:
                continue
            jobs.append((name, flags, ref, desc, 'sess_%d_%s' % (k, len(flags) * 10 + len(flags[0])), 1))
            if len(ref) >= 4:
                # ... and a session that is QUIT in the middle of the run (a run that ends by --limit saves no position) and resumed
                # with the flags taken from its save file: the restore walk then has popped nodes to walk through
                from . import check_session
                for cut in sorted({len(ref) // 3, len(ref) // 2, (3 * len(ref)) // 4} - {0}):
                    fn_ = os.path.join(d, 'cut%d_%d.sav' % (len(flags), cut))
                    r1 = session.run_session(ptq.load_pcfg(d, save_file=fn_, **kw), session.new_save_config(skip_brute=kw['skip_brute'], skip_case=kw['skip_case']),
                                             fn_, quit_at_guess=cut)
                    if not (r1['quit'] and r1['saves'] and r1['saves'][-1] >= cut):
                        continue
                    r2 = check_session.resume_to_end(d, fn_)
                    tid += 1
                    traces.append({'tid': tid, 'kind': 'resumed', 'first': [expand.cps(x) for x in r1['lines']], 'got': [expand.cps(x) for x in r2['lines']],
                                   'ref': [expand.cps(x) for x in ref], 'cut': cut})
                    meta[tid] = dict(desc, check='session started with %s, quit after %d guesses, resumed with the flags of the save file' % (' '.join(flags), cut),
                                     got=len(r2['lines']), want=len(ref) - len(r1['lines']), got_head=r2['lines'][:3])

    def runjob(job):
        name, flags, ref, desc, sname, cut = job
        o1, err, code = session.cli(rcopy, 'pcfg_guesser.py', ['-r', name, '-s', sname, '-n', str(cut)] + flags, stdin='open')
        out, err, code = session.cli(rcopy, 'pcfg_guesser.py', ['-r', name, '-s', sname, '--load'], stdin='open')
        return session.stdout_lines(out), session.stdout_lines(o1)

    with ThreadPoolExecutor(core.NCPU) as ex:
        outs = list(ex.map(runjob, jobs))
    for (name, flags, ref, desc, sname, cut), (so, o1) in zip(jobs, outs):
        tid += 1
        if cut == 1:
            traces.append({'tid': tid, 'kind': 'lines', 'lines': [expand.cps(x) for x in so], 'ref': [expand.cps(x) for x in ref]})
        else:
            traces.append({'tid': tid, 'kind': 'resumed', 'first': [expand.cps(x) for x in o1], 'got': [expand.cps(x) for x in so],
                           'ref': [expand.cps(x) for x in ref], 'cut': cut})
        meta[tid] = dict(desc, check='session started with %s, cut after %d lines, resumed with plain --load' % (' '.join(flags), cut),
                         got=len(so), want=len(ref), got_head=so[:3], want_head=ref[:3])

    verdicts, st = core.validate_traces('TrLoader.tla', traces, chunk=400, timeout=300)
    for t in traces:
        v = verdicts[t['tid']]
        if v[0] == 'ACCEPT':
            continue
        m = meta[t['tid']]
        extra = {}
        if t['kind'] == 'stream':
            extra['unscaled'] = [e for e in t['skp'] if not e['scaled']][:5]
            extra['dir'] = m.get('dir')
        verdict.violation(dict(m, clause=v[2], **extra), 'clause %s; %s' % (v[2], core.short(m, 260)))

    def corrupt(t):
        if t['kind'] == 'load' and t['out']:
            t['out'][0]['p'] = [t['out'][0]['p'][0] + 1, t['out'][0]['p'][1]]      # a loaded probability that is not the rescaled one
            return t
        if t['kind'] == 'stream' and len(t['skp']) >= 2:
            t['skp'] = t['skp'][:-1]                                                 # a non-Markov pre-terminal missing under --skip_brute
            return t
        return None
    accepted = [t for t in traces if verdicts[t['tid']][0] == 'ACCEPT']
    selftest = core.binding_selftest('TrLoader.tla', accepted, corrupt)

    def has_m(m):
        return any(x[0] == 'M' for x in m.get('file', m.get('base', [])))

    def only_m(m):
        ff = m.get('file', m.get('base', []))
        return len(ff) > 0 and all(x[0] == 'M' for x in ff)
    verdict.matcher('C14-F3a-skip-brute-without-markov-line',
                    lambda w: w.get('kind') != 'lines' and (w.get('skip_brute') or w.get('check') == 'stream') and not has_m(w))
    verdict.matcher('C14-F3c-markov-only', lambda w: only_m(w))
    verdict.matcher('C14-F3b-flags-applied-after-load',
                    lambda w: w.get('clause') == 'C14_stream_is_reference')
    rc, n_viol, n_known = verdict.finish()

    kinds = {}
    for t in traces:
        kinds[t['kind']] = kinds.get(t['kind'], 0) + 1
    distinct = len({json.dumps({k: v for k, v in t.items() if k != 'tid'}, sort_keys=True) for t in traces
                    if t['kind'] != 'load' or len(t['file']) > 1})
    s = traces[len(files)]
    cov = {'states': mc['states'], 'transitions': mc['transitions'],
           'traces_validated_against_impl': len(traces),
           'samples': [{'meta': meta[s['tid']], 'trace': core.short(s, 600)}],
           'model_checking': mc, 'evaluations': len(traces), 'distinct_nontrivial': distinct,
           'rule': 'load trace = one real _load_base_structures call on one model file (non-trivial: more than one line); '
                   'stream/lower trace = one ruleset loaded and enumerated with and without the flag; lines trace = two '
                   'pcfg_guesser.py processes (start with flags, resume with plain --load)',
           'trace_kinds': kinds, 'shipped_base_structure_lines_loaded': n_shipped_lines, 'strings_compared_under_all_lower': n_lower_strings[0], 'model_files_instantiated': len(files), 'cli_pairs': len(jobs),
           'trace_validation': st, 'exhaustive': False, 'known_findings_reproduced': n_known, 'binding_selftest': selftest,
           'violation_histogram': verdict.histogram()}
    core.write_evidence(pid, tier, seed, 'model_checking', cov, time.time() - t0, violations=n_viol,
                        assumptions=['TLC', 'loaded probabilities rationalised with Fraction.limit_denominator(64) (+1e-12 residue flag)',
                                     'rescaling compared with relative 1e-9 in Python', 'pre-terminal order inside each run is C01'])
    return rc
