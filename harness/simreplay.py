"""spec -> code for the Session model: behaviours written by `tlc -simulate` on Session.tla (instantiated with the
pre-terminal list of a REAL ruleset) are replayed, action by action, as gate schedules on the real two-thread code;
after the last action the real stream and the real save file are compared with the behaviour's last state."""
import json
import os
import re
import subprocess

from . import core, gated, ptq, session

ACTION_THREAD = {'MStart': 'M', 'MSave0': 'M', 'MThreadStarted': 'M', 'MOmenEmit': 'M', 'MOmenChk': 'M', 'MPop': 'M',
                 'MChk': 'M', 'MEmit': 'M', 'MSave': 'M', 'KStart': 'K', 'KInput': 'K', 'KSleep': 'K', 'KStatus': 'K',
                 'KSetExit': 'K'}


def simulate(pts, num, depth, seed, workdir):
    """-> list of behaviours; a behaviour = list of (action, state dict of raw TLA+ value strings)"""
    os.makedirs(workdir, exist_ok=True)
    ptf = os.path.join(workdir, 'pt.json')
    with open(ptf, 'w') as f:
        json.dump([{'kind': p['kind'], 'size': p['size']} for p in pts], f)
    cfg = os.path.join(workdir, 'sim.cfg')
    with open(cfg, 'w') as f:
        f.write('SPECIFICATION Spec\nCONSTANTS\n  PT <- PTData\n  Scripts <- SimScripts\n  MaxSess = 3\n'
                '  FixChk = TRUE\n  FixStale = TRUE\n  FixLast = TRUE\nCHECK_DEADLOCK FALSE\n')
    prefix = os.path.join(workdir, 'b')
    cmd = ['java', '-XX:+UseParallelGC', '-cp', core.TLA_CP, '-DTLA-Library=' + core.SPEC, 'tlc2.TLC',
           '-simulate', 'file=%s,num=%d' % (prefix, num), '-depth', str(depth), '-workers', '1', '-seed', str(seed),
           '-config', cfg, '-metadir', os.path.join(workdir, 'meta'), os.path.join(core.SPEC, 'Sim_Session.tla')]
    env = dict(os.environ, PT_FILE=ptf)
    env.pop('JAVA_TOOL_OPTIONS', None)
    p = subprocess.run(cmd, cwd=workdir, env=env, stdout=subprocess.PIPE, stderr=subprocess.STDOUT, text=True, timeout=600)
    out = []
    for fn in sorted(os.listdir(workdir)):
        if not fn.startswith('b_'):
            continue
        text = open(os.path.join(workdir, fn)).read()
        beh = []
        for m in re.finditer(r'\\\* <(\w+) line[^>]*>\s*\nSTATE_\d+ ==\s*\n(.*?)(?=\n\n|\Z)', text, re.S):
            st = {}
            # a conjunct may be wrapped over several lines: split at the leading "/\\ "
            for part in re.split(r'(?:^|\n)/\\ ', m.group(2)):
                mm = re.match(r'(\w+) = (.*)$', part.strip(), re.S)
                if mm:
                    st[mm.group(1)] = ' '.join(mm.group(2).split())
            beh.append((m.group(1), st))
        if beh:
            out.append(beh)
    if not out:
        raise core.MachineryError('tlc -simulate produced no behaviours:\n' + p.stdout[-1500:])
    return out


def replay(path, E, PTS, beh, work):
    """returns dict(result = 'match' | 'mismatch' | 'not_replayable', detail)"""
    names = []
    cnt = {}
    for (p, m, g, pr) in E:
        cnt[p] = cnt.get(p, 0) + 1
        names.append((p, cnt[p]))
    fn = os.path.join(work, 'sim.sav')
    for f in (fn, fn[:-4] + '.omn'):
        if os.path.exists(f):
            os.remove(f)
    # split the behaviour into processes at Reload
    procs = [[]]
    for act, st in beh[1:]:
        if act == 'Reload':
            procs.append([])
        procs[-1].append((act, st))
    script0 = core.parse_tla_value(beh[0][1]['script'])
    all_lines = []
    N = len(PTS)
    for pi, steps in enumerate(procs):
        if pi == 0:
            script = script0
            acts = steps
        else:
            script = core.parse_tla_value(steps[0][1]['script'])
            acts = steps[1:]
        sched = [ACTION_THREAD[a] for a, _ in acts]
        if not sched:
            break
        if pi == 0:
            pcfg = ptq.load_pcfg(path, save_file=fn)
            run = gated.GatedRun(pcfg, session.new_save_config(), fn, script)
        else:
            cfg, info = session.load_save(fn)
            if cfg is None:
                return {'result': 'mismatch', 'detail': 'no loadable save file for process %d' % (pi + 1)}
            pcfg = ptq.load_pcfg(path, save_file=fn)
            run = gated.GatedRun(pcfg, cfg, fn, script, load=True)
        pos = [0]
        diverged = []

        def chooser(enabled, step, gates):
            if step >= len(sched):
                return None
            want = sched[step]
            if want not in enabled:
                diverged.append((step, want, enabled, gates))
                return None
            return want
        r = run_with_stop(run, chooser, len(sched))
        if diverged:
            act = acts[diverged[0][0]][0]
            # the model's KStatus may raise or not (nondeterministic); when the code resolves it the other way the behaviour
            # cannot be followed - that is not a disagreement
            return {'result': 'not_replayable', 'detail': 'thread %s not enabled at step %d (%s)' % (diverged[0][1], diverged[0][0], act)}
        all_lines += r['lines']
        last = acts[-1][1]
        process_done = last.get('mpc') == '"done"'
        if not process_done and pi < len(procs) - 1:
            return {'result': 'not_replayable', 'detail': 'behaviour reloads before the process ended'}
    # compare the stream
    want_stream = core.parse_tla_value(beh[-1][1]['stream'])
    got = []
    pos = 0
    # align lines to E sequentially per the model's stream (names)
    look = {}
    for k, (p, m, g, pr) in enumerate(E):
        look.setdefault(g, []).append(names[k])
    want_names = [tuple(x) for x in want_stream]
    got_ok = len(all_lines) == len(want_names) and all(tuple(wn) in [tuple(c) for c in look.get(ln, [])] for ln, wn in zip(all_lines, want_names))
    if not got_ok:
        return {'result': 'mismatch', 'detail': {'model_stream': want_names[:30], 'real_lines': all_lines[:30]}}
    # compare the store when the last process of the behaviour ended
    last = beh[-1][1]
    if last.get('mpc') == '"done"':
        from .check_session import store_state
        rank, has, og, ng = store_state(fn, PTS)
        sav = core.parse_tla_value(last['sav'])
        if sav['maxp'] != rank or sav['hasomen'] != has or sav['ng'] != ng:
            return {'result': 'mismatch', 'detail': {'model_sav': sav, 'real': [rank, has, ng]}}
    return {'result': 'match', 'detail': None}


def run_with_stop(run, chooser, nsteps):
    """GatedRun.run with a chooser that may ask to stop (returns None) - the run is then torn down"""
    class Stop(Exception):
        pass

    def ch(enabled, step, gates):
        c = chooser(enabled, step, gates)
        if c is None:
            raise Stop()
        return c
    try:
        return run.run(ch, max_steps=nsteps)
    except Stop:
        return {'lines': list(run.lines), 'log': list(run.sched.log), 'finished': False, 'error': None, 'schedule': []}
