"""Drive the real PcfgGrammar / PcfgQueue (and sessions) and record traces for TrPTQ / TrPTQ_I."""
import configparser
import io
import os
import random
import re
import sys
import contextlib

from . import core, rulesets

core.use_repo()

INF = 1000000
SCALE = 8.0  # integer weight w  ->  probability w / 8 (dyadic: every product exact in binary64)


# --------------------------------------------------------------------------
# grammar space export (spec -> code): the set TLC quantifies over
# --------------------------------------------------------------------------
def export_grammars(mc_cfg):
    """Evaluate MCGrammars of MC_PTQueue under the constants of `mc_cfg` with TLC and return it."""
    d = core.scratch('export')
    cfg = os.path.join(d, 'export.cfg')
    keep = []
    for line in open(mc_cfg):
        s = line.strip()
        if s.startswith(('INVARIANT', 'PROPERTY', 'SPECIFICATION', 'CONSTRAINT', 'CHECK_DEADLOCK')):
            continue
        keep.append(line)
    with open(cfg, 'w') as f:
        f.write('SPECIFICATION ESpec\n' + ''.join(keep))
    out = os.path.join(d, 'grammars.json')
    r = core.tlc(os.path.join(core.SPEC, 'Export_PTQueue.tla'), cfg, workers=1, timeout=300,
                 env={'OUT_FILE': out}, deadlock=False)
    if not os.path.exists(out):
        raise core.MachineryError('grammar export failed:\n' + r.out[-2000:])
    import json
    with open(out) as f:
        gs = json.load(f)
    gs.sort(key=lambda g: json.dumps(g, sort_keys=True))
    return gs


def ruleset_from_int_grammar(g, path, seed=0):
    """Instantiate an integer-weight grammar [W, S] as a ruleset with dyadic probabilities.
    Variable type i is the digit terminal D<i>; group j of weight w holds 1 or 2 values."""
    terminals = {}
    for ti, ws in enumerate(g['W'], 1):
        items = []
        for gj, w in enumerate(ws, 1):
            nvals = 1 + ((ti + gj + seed) % 2)
            for v in range(nvals):
                items.append(('%d%d%d' % (ti, gj, v), w / SCALE))
        terminals['D%d' % ti] = items
    base = [(''.join('D%d' % t for t in s['t']), s['b'] / SCALE) for s in g['S']]
    return rulesets.write_ruleset(path, terminals, base)


# --------------------------------------------------------------------------
# loading and running the real code
# --------------------------------------------------------------------------
def load_pcfg(path, skip_brute=False, skip_case=False, folder='Grammar', save_file=None):
    from lib_guesser.pcfg_grammar import PcfgGrammar
    with contextlib.redirect_stderr(io.StringIO()), contextlib.redirect_stdout(io.StringIO()):
        return PcfgGrammar('verif', path, '4.7', save_file or os.path.join(path, 'session.sav'),
                           skip_brute=skip_brute, skip_case=skip_case,
                           base_structure_folder=folder)


def sizes_of(pcfg):
    # .get: a loaded structure naming a variable the grammar does not have is the code's problem, not the harness's
    return [[len(pcfg.grammar.get(t, ())) for t in b['replacements']] for b in pcfg.base]


class NodeNamer:
    """pt_item -> (structure index, 1-based group indices).  Structures with identical replacement
    lists and base probability are distinguished by object identity of nothing in the real code,
    so equal structures are told apart by multiplicity: the k-th distinct popped copy of a node is
    attributed to the k-th duplicate structure (a bag-preserving naming)."""

    def __init__(self, pcfg):
        self.groups = {}
        for i, b in enumerate(pcfg.base, 1):
            self.groups.setdefault((tuple(b['replacements']), b['prob']), []).append(i)

    def key(self, pt_item):
        reps = tuple(t for t, _ in pt_item['pt'])
        return (reps, pt_item['base_prob'])

    def has_duplicates(self):
        return any(len(v) > 1 for v in self.groups.values())

    def name_all(self, items, used=None):
        """name a list of pt_items (a bag) consistently: duplicates get successive structure ids.
        Pass the same `used` dict to continue the numbering across calls (whole history)."""
        if used is None:
            used = {}
        out = []
        for it in items:
            k = self.key(it)
            idx = tuple(i + 1 for _, i in it['pt'])
            c = used.get((k, idx), 0)
            used[(k, idx)] = c + 1
            cand = self.groups[k]
            out.append([cand[c % len(cand)], list(idx)])
        return out


def true_product(pcfg, pt_item):
    """independent left-to-right product of the loaded group probabilities"""
    p = pt_item['base_prob']
    for t, i in pt_item['pt']:
        p = p * pcfg.grammar[t][i]['prob']
    return p


def file_disagreements(path, pcfg, folder='Grammar'):
    """(type, group index) pairs whose values do not all carry, in the terminal file as the harness's neutral reader sees
    it, the probability the loaded group carries - the product the tool reports would then not be the ruleset's"""
    from . import expand as _expand
    bad = set()
    recs_of = _expand.file_prob_ranks(path, pcfg)
    for t, groups in pcfg.grammar.items():
        if t[0] in 'EW' or not groups:
            continue
        recs = recs_of(t)
        if not recs:
            continue      # synthesised group (--all_lower masks)
        off = 0
        for gi, g in enumerate(groups):
            mine = recs[off:off + len(g['values'])]
            off += len(g['values'])
            if [v for v, _ in mine] != list(g['values']) or any(p != g['prob'] for _, p in mine):
                bad.add((t, gi))
    return bad


def base_disagreements(path, pcfg, folder='Grammar', skip_brute=False):
    """('BASE', replacement types, loaded probability) of the loaded base structures whose probability is not the one the
    base-structure file states (neutral reader): exactly as written for the default run, divided by 1 - P(Markov) under
    --skip_brute.  A pre-terminal of such a structure does not carry "the base-structure probability times ..."."""
    import re
    from . import rulesets as _rs
    recs = _rs.neutral_value_prob(os.path.join(path, folder, 'grammar.txt'))
    pm = 0.0
    for v, pr in recs:
        if v == 'M':
            pm = float(pr)
            break
    want = {}
    for v, pr in recs:
        if skip_brute and 'M' in v:
            continue
        reps = []
        for m in re.finditer(r'([A-Z])([0-9]*)', v):
            reps.append(m.group(0))
            if m.group(1) == 'A':
                reps.append('C' + m.group(2))
        # (a probability is at most 1: the loader clamps a rescaled value that rounding - or an ill-formed list - pushes above it)
        want.setdefault(tuple(reps), []).append(min(1.0, float(pr) / (1.0 - pm)) if skip_brute and pm < 1.0 else float(pr))
    bad = set()
    for b in pcfg.base:
        cands = want.get(tuple(b['replacements']), [])
        ok = any((c == b['prob']) or abs(c - b['prob']) <= 1e-12 * max(abs(c), abs(b['prob'])) for c in cands)
        if not ok:
            bad.add(('BASE', tuple(b['replacements']), b['prob']))
    return bad


def prob_ok(pcfg, pt_item, exact, bad_groups=()):
    if bad_groups and any((t, i) in bad_groups for t, i in pt_item['pt']):
        return False
    if bad_groups and ('BASE', tuple(t for t, _ in pt_item['pt']), pt_item['base_prob']) in bad_groups:
        return False
    ref = true_product(pcfg, pt_item)
    got = pt_item['prob']
    if exact:
        return got == ref
    if ref == got:
        return True
    return abs(got - ref) <= 1e-12 * max(abs(ref), abs(got))


def queue_items(q):
    """the pre-terminals waiting in the real queue (I-layer observation).  The representation of a heap entry is an
    implementation detail: an object with .pt_item on the pinned tree; a tuple holding the pt_item dict is accepted too.
    Returns None when the entries cannot be interpreted - the I-layer comparison is then skipped ('not observable'),
    the P-layer verdict does not need it."""
    out = []
    try:
        for e in q.p_queue:
            if hasattr(e, 'pt_item'):
                out.append(e.pt_item)
                continue
            if isinstance(e, dict) and 'pt' in e:
                out.append(e)
                continue
            cand = [x for x in e if isinstance(x, dict) and 'pt' in x] if isinstance(e, (tuple, list)) else []
            if len(cand) != 1:
                return None
            out.append(cand[0])
    except Exception:
        return None
    return out


def run_history(pcfg, cuts, exact=True, with_queue=True, max_pops=None):
    """One history on the real queue: session i pops until its (cuts[i]+1)-th pop, at which the
    quit is noticed (that pre-terminal is not guessed), saves through configparser text, and the
    next session restores from the saved text.  The last session runs to exhaustion (or max_pops).
    Returns dict(sessions=[{saved, ev:[(item, queue_items)], quit:item|None, restored:[items]}], exhausted)"""
    from lib_guesser.priority_queue import PcfgQueue
    sessions = []
    cfg_text = None
    exhausted = False
    raised = None
    for si in range(len(cuts) + 1):
        try:
            if cfg_text is None:
                saved = None
                q = PcfgQueue(pcfg)
            else:
                cp = configparser.ConfigParser()
                cp.read_string(cfg_text)
                saved = cp.getfloat('guessing_info', 'max_probability')
                q = PcfgQueue(pcfg, cp)
        except Exception as ex:          # the code under test raised while building / restoring the queue
            raised = repr(ex)
            sessions.append({'saved': saved if cfg_text is not None else None, 'ev': [], 'quit': None, 'restored': None})
            break
        sess = {'saved': saved, 'ev': [], 'quit': None,
                'restored': queue_items(q) if with_queue else None}
        cut = cuts[si] if si < len(cuts) else None
        n = 0
        # a queue that keeps handing out pre-terminals for ever (e.g. the same one again and again) never ends: more pops
        # than three times the number of pre-terminals of the grammar (+ slack) is recorded as "does not terminate"
        try:
            pop_cap = 3 * n_nodes(sizes_of(pcfg)) + 200
        except Exception:
            pop_cap = 10 ** 6
        while True:
            if n > pop_cap:
                raised = 'the queue did not run empty after %d pops (grammar has %d pre-terminals)' % (n, (pop_cap - 200) // 3)
                break
            try:
                it = q.next()
            except Exception as ex:      # the code under test raised while enumerating
                raised = repr(ex)
                break
            if it is None:
                exhausted = True
                break
            qitems = queue_items(q) if with_queue else None
            if cut is not None and n == cut:
                sess['quit'] = (it, qitems)
                cp = configparser.ConfigParser()
                cp.add_section('guessing_info')
                q.update_save_config(cp)
                buf = io.StringIO()
                cp.write(buf)
                cfg_text = buf.getvalue()
                break
            sess['ev'].append((it, qitems))
            n += 1
            if max_pops is not None and cut is None and n >= max_pops:
                break
        sessions.append(sess)
        if exhausted or raised:
            break
    return {'sessions': sessions, 'exhausted': exhausted, 'raised': raised}


def to_traces(tid, pcfg, hist, mode, exact=True, int_grammar=None, ev2=None, meta=None, bad_groups=()):
    """-> (P-layer trace dict, I-layer trace dict or None)"""
    namer = NodeNamer(pcfg)
    # dense ranks of every float that is compared
    vals = set()
    for s in hist['sessions']:
        if s['saved'] is not None:
            vals.add(s['saved'])
        for it, _ in s['ev']:
            vals.add(it['prob'])
    order = sorted(vals)
    rank = {v: i + 1 for i, v in enumerate(order)}
    sess_out = []
    iev = []
    # the names of emitted items must be consistent inside a session for duplicates; name per session
    used = {}
    for k, s in enumerate(hist['sessions']):
        names = namer.name_all([it for it, _ in s['ev']], used)
        evs = []
        for (it, qi), nm in zip(s['ev'], names):
            evs.append({'s': nm[0], 'n': nm[1], 'r': rank[it['prob']], 'ok': bool(prob_ok(pcfg, it, exact, bad_groups))})
        sess_out.append({'saved': INF if s['saved'] is None else rank[s['saved']], 'ev': evs})
    p = {'tid': tid, 'mode': mode, 'sizes': sizes_of(pcfg), 'sess': sess_out,
         'exhausted': bool(hist['exhausted']), 'ev2': ev2 if ev2 is not None else sess_out[0]['ev'],
         'raised': bool(hist.get('raised'))}
    if meta:
        p['meta'] = meta
    itrace = None
    observable = all(s_['restored'] is not None and all(qi is not None for _, qi in s_['ev']) and
                     (s_['quit'] is None or s_['quit'][1] is not None) for s_ in hist['sessions'])
    if int_grammar is not None and observable and not namer.has_duplicates():
        for k, s in enumerate(hist['sessions']):
            if k == 0:
                iev.append({'a': 'start', 'q': namer.name_all(s['restored'])})
            names = namer.name_all([it for it, _ in s['ev']])
            for (it, qi), nm in zip(s['ev'], names):
                iev.append({'a': 'pop', 's': nm[0], 'n': nm[1], 'q': namer.name_all(qi)})
                iev.append({'a': 'guess'})
            if s['quit'] is not None:
                it, qi = s['quit']
                nm = namer.name_all([it])[0]
                iev.append({'a': 'pop', 's': nm[0], 'n': nm[1], 'q': namer.name_all(qi)})
                nxt = hist['sessions'][k + 1]
                iev.append({'a': 'quit', 'q': namer.name_all(nxt['restored'])})
        if hist['exhausted']:
            iev.append({'a': 'finish'})
        itrace = {'tid': tid, 'g': int_grammar, 'iev': iev}
    return p, itrace


def wide_ruleset(path):
    """many one-variable base structures (2-5 groups each) next to the Markov structure with six levels: the shape in which
    the heap holds many unrelated items while a child may tie its parent exactly (OMEN levels of equal probability stay
    separate groups).  Probabilities are placeholders: reweight() assigns them in memory."""
    from . import rulesets
    terms = {}
    for t, vals in (('D1', '01234'), ('D2', ['11', '22', '33', '44']), ('D3', ['123', '456', '789']), ('O1', '!@#$%'),
                    ('O2', ['!!', '@@', '##']), ('K4', ['1qaz', '2wsx', 'zaq1']), ('Y1', ['1999', '2020']), ('X1', ['#1', '<3']),
                    ('D4', ['1234', '4321', '1111', '2222'])):
        terms[t] = [(v, 0.5 / (i + 1)) for i, v in enumerate(vals)]
    base = [(t, 0.09 - 0.001 * i) for i, t in enumerate(terms)] + [('M', 0.1)]
    rulesets.write_ruleset(path, terms, base, omen_prob=[(lv, 0.3 / (lv + 1)) for lv in range(0, 6)],
                           omen_keyspace=[(lv, 1) for lv in range(0, 6)])


def reweight(pcfg, rng, full=None):
    """assign new probabilities IN MEMORY (as if the ruleset files had held them): base structures from a small pool (ties
    frequent), groups of a variable strictly decreasing, Markov levels non-increasing with runs of EQUAL probability"""
    pool = [0.5, 0.25, 0.2, 0.125, 0.1, 0.3, 0.15, 0.05, 0.0625, 0.04, 1 / 3, 0.07]
    full = full if full is not None else {t: list(g) for t, g in pcfg.grammar.items()}
    for b in pcfg.base:
        b['prob'] = rng.choice(pool)
    for t, groups in full.items():
        if not groups:
            continue
        k = rng.randint(1, len(groups))
        if t == 'M':
            ps = sorted((rng.choice([0.5, 0.5, 0.25, 0.25, 0.125, 0.1]) for _ in range(k)), reverse=True)
        else:
            ps = sorted(rng.sample(pool, min(k, len(pool))), reverse=True)
            k = len(ps)
        pcfg.grammar[t] = [dict(g, prob=p) for g, p in zip(groups[:k], ps)]
    return full


def n_nodes(sizes):
    t = 0
    for sz in sizes:
        k = 1
        for x in sz:
            k *= x
        t += k
    return t


# --------------------------------------------------------------------------
# float rulesets (code -> spec): arbitrary probabilities, ties, tiny magnitudes, flags
# --------------------------------------------------------------------------
SPECIAL = [0.5, 0.25, 0.125, 1 / 3, 1 / 7, 0.1, 0.2, 0.3, 1e-200, 5e-324, 1e-160, 0.0625, 2 / 3, 0.7, 1.0, 1e-5]


def random_float_ruleset(rng, path, normalize_base=False):
    """a well-formed ruleset with alpha (+masks), digit, other types, optional Markov structure,
    Prince grammar; returns a description for evidence."""
    def probs(n):
        ps = set()
        while len(ps) < n:
            r = rng.random()
            if r < 0.5:
                ps.add(rng.choice(SPECIAL))
            elif r < 0.8:
                ps.add(rng.choice(SPECIAL) * rng.choice(SPECIAL))
            else:
                ps.add(rng.random())
        return sorted(ps, reverse=True)

    terminals = {}
    alpha_lens = rng.sample([1, 2, 3, 10, 12], rng.randint(1, 2))       # two-digit lengths: A10 pairs with C10, not C1
    names = []
    letters = 'abcdefgh'
    for L in alpha_lens:
        n = rng.randint(1, 3)
        items = []
        for gi, p in enumerate(probs(n)):
            for v in range(rng.randint(1, 2)):
                items.append((''.join(rng.choice(letters) for _ in range(L)) + '', p))
        # values must be unique inside a file
        seen = set()
        items = [(v, p) for v, p in items if not (v in seen or seen.add(v))]
        terminals['A%d' % L] = items
        masks = ['L' * L, 'U' + 'L' * (L - 1), 'U' * L, 'L' * (L - 1) + 'U']
        masks = list(dict.fromkeys(masks))
        rng.shuffle(masks)
        nm = rng.randint(1, len(masks))
        ps = probs(rng.randint(1, nm))
        mitems = []
        for i, m in enumerate(masks[:nm]):
            mitems.append((m, ps[min(i, len(ps) - 1)]))
        mitems.sort(key=lambda x: -x[1])
        terminals['C%d' % L] = mitems
        names.append('A%d' % L)
    for cat, pool in (('D', '0123456789'), ('O', '!@#$%')):
        for L in rng.sample([1, 2], rng.randint(1, 2)):
            n = rng.randint(1, 3)
            items = []
            seen = set()
            for p in probs(n):
                for v in range(rng.randint(1, 2)):
                    val = ''.join(rng.choice(pool) for _ in range(L))
                    if val not in seen:
                        seen.add(val)
                        items.append((val, p))
            if items:
                terminals['%s%d' % (cat, L)] = items
                names.append('%s%d' % (cat, L))
    nstruct = rng.randint(1, 3)
    structs = []
    for _ in range(nstruct):
        ln = rng.randint(1, 3)
        structs.append(''.join(rng.choice(names) for _ in range(ln)))
    if rng.random() < 0.3:
        structs.append(rng.choice(structs))  # duplicate base structure
    with_m = rng.random() < 0.5
    if with_m:
        structs.insert(rng.randint(0, len(structs)), 'M')
    ps = [rng.choice(SPECIAL) if rng.random() < 0.6 else rng.random() for _ in structs]
    if rng.random() < 0.3 and len(ps) > 1:
        ps[1] = ps[0]
    if normalize_base:
        # well-formed list: sums to 1 and 1 - P(M) is representable (P(M) < 1 unless M stands alone)
        ps = [max(p, 1e-6) for p in ps]
        tot = sum(ps)
        ps = [p / tot for p in ps] if tot > 0 else ps
    base = sorted(zip(structs, ps), key=lambda x: -x[1])
    prince = [(n, p) for n, p in zip(names, probs(len(names)))]
    omen_prob = [(1, 0.25), (2, 0.125), (3, 0.0), (4, 0.0)] if rng.random() < 0.5 else [(1, 1 / 3), (2, 1 / 3), (3, 0.01)]
    rulesets.write_ruleset(path, terminals, base, prince=prince, omen_prob=omen_prob,
                           omen_keyspace=[(1, 1), (2, 2), (3, 2), (4, 3)])
    return {'terminals': {k: v for k, v in terminals.items()}, 'base': base, 'prince': prince,
            'omen_prob': omen_prob}
