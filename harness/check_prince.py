"""C17: PRINCE-LING emits the ruleset's words most-probable-first, up to the size asked.
Model: Expand.tla (loop with PassLimit) + PTQueue.tla; verdict: TrPTQ (order / once), TrExpand (product, --size, file = stdout)."""
import json
import os
import random
import re
import time
from concurrent.futures import ThreadPoolExecutor

from . import core, ptq, expand, session


def mc_stage():
    mod = os.path.join(core.SPEC, 'MC_Expand.tla')
    cfg = os.path.join(core.SPEC, 'MC_Prince.cfg')
    r = core.tlc_must_pass(mod, cfg, 'Prince loop', timeout=900)
    return {'cfg': 'MC_Prince.cfg', 'states': r.distinct, 'transitions': r.generated, 'wall_s': round(r.wall, 1)}


def wordlist(pcfg, size):
    from lib_princeling.wordlist_generation import create_prince_wordlist
    import contextlib
    import io
    lines = []
    pcfg.print_guess = lines.append
    with contextlib.redirect_stderr(io.StringIO()):
        create_prince_wordlist(pcfg, size)
    return lines


def main(pid, tier, seed):
    t0 = time.time()
    rng = random.Random(seed)
    verdict = core.Verdict(pid)
    mc = mc_stage()
    work = core.scratch('rules')
    qtraces, etraces, meta, strings = [], [], {}, []
    tid = 0
    rdirs = []
    for k in range(12 if tier == 'quick' else 400):
        d = os.path.join(work, 'r%d' % k)
        desc = [expand.tie_group_ruleset, expand.dyadic_prince_ruleset, expand.rich_ruleset, ptq.random_float_ruleset][k % 4](rng, d)
        rdirs.append((d, desc))
    from . import shapes
    for d_, desc_ in shapes.all_special(rng, work):
        if os.path.exists(os.path.join(d_, 'Prince', 'grammar.txt')) and os.path.getsize(os.path.join(d_, 'Prince', 'grammar.txt')) > 0:
            rdirs.append((d_, desc_))
    # the PRINCE grammar's structures as loaded: every alpha variable with the case masks of ITS length (Loader.tla InsertC)
    from . import check_loader, rulesets
    ltraces, lmeta = [], {}
    for d, desc in rdirs:
        recs = rulesets.neutral_value_prob(os.path.join(d, 'Prince', 'grammar.txt'))
        pcfg = ptq.load_pcfg(d, folder='Prince')
        labels = [[[m.group(1), int(m.group(2) or 0)] for m in re.finditer(r'([A-Z])([0-9]*)', v)] for v, _ in recs]
        loaded = [check_loader.parse_reps(b['replacements']) for b in pcfg.base]
        ltraces.append({'tid': len(ltraces) + 1, 'kind': 'structs', 'labels': labels, 'loaded': loaded})
        lmeta[len(ltraces)] = {'ruleset': desc, 'check': 'prince structures as loaded', 'file': [v for v, _ in recs][:8],
                               'loaded': [b['replacements'] for b in pcfg.base][:8]}
    cli_jobs = []
    for d, desc in rdirs:
        for flags in (dict(), dict(skip_case=True)):
            pcfg = ptq.load_pcfg(d, folder='Prince', **flags)
            # order / each pre-terminal once (unbounded)
            hist = ptq.run_history(pcfg, [], with_queue=False)
            tid += 1
            p, _ = ptq.to_traces(tid, pcfg, hist, 'ALL', exact=False)
            qtraces.append(p)
            meta[tid] = {'ruleset': desc, 'flags': flags, 'check': 'prince queue order / once', 'raised': hist.get('raised')}
            if hist.get('raised'):
                continue          # reported by the trace above (run_does_not_raise); nothing further can be enumerated
            # each pre-terminal = product of its groups
            fileprobs = expand.file_prob_ranks(d, pcfg)
            for b, pt in expand.all_pts(pcfg):
                groups = expand.pt_groups(pcfg, pt, d, fileprobs, synth_caps=flags.get('skip_case', False))
                lines, n = expand.expand_real(pcfg, pt)
                strings.extend(lines)
                for g, (t, i) in zip(groups, pt):
                    if g['k'] == 'plain':
                        strings.extend(pcfg.grammar[t][i]['values'])
                tid += 1
                etraces.append({'tid': tid, 'kind': 'pt', 'rp': 0, 'pp': 0, 'groups': groups, 'lines': [expand.cps(s) for s in lines], 'count': n})
                meta[tid] = {'ruleset': desc, 'flags': flags, 'pt': pt, 'check': 'prince pre-terminal product'}
            # --size N
            full = wordlist(ptq.load_pcfg(d, folder='Prince', **flags), None)
            strings.extend(full)
            total = len(full)
            if total == 0:
                continue
            ns = list(range(1, total + 2)) if (total <= 40 or tier == 'thorough' and total <= 150) else \
                sorted({1, 2, total - 1, total, total + 1} | {rng.randint(1, total) for _ in range(12)})
            for N in ns:
                got = wordlist(ptq.load_pcfg(d, folder='Prince', **flags), N)
                tid += 1
                etraces.append({'tid': tid, 'kind': 'limit', 'N': N, 'full': [expand.cps(s) for s in full],
                                'lines': [expand.cps(s) for s in got], 'hasout': False, 'stdout': []})
                meta[tid] = {'ruleset': desc, 'flags': flags, 'N': N, 'check': 'create_prince_wordlist(size=N)',
                             'got': len(got)}
            cli_jobs.append((d, desc, flags, full))

    # ---- command line: stdout and -o file ----
    rcopy = core.repo_copy('cli')
    jobs = []
    n_preexisting = [0]
    for k, (d, desc, flags, full) in enumerate(cli_jobs[:8] if tier == 'quick' else cli_jobs[:150]):
        name = 'v%d' % k
        os.symlink(d, os.path.join(rcopy, 'Rules', name))
        total = len(full)
        for N in [None, rng.randint(1, total), total + 1] + [n_ for n_ in (1, 2, 3) if n_ <= total and k < 4]:
            for tofile in (False, True):
                args = ['-r', name]
                if N is not None:
                    args += ['-s', str(N)]
                if flags.get('skip_case'):
                    args.append('--all_lower')
                ofile = os.path.join(work, 'out_%d_%s_%s.txt' % (k, N, tofile)) if tofile else None
                if ofile:
                    args += ['-o', ofile]
                    if len(jobs) % 4 < 2:
                        # the user regenerates a wordlist at a path that already holds an older, longer one
                        with open(ofile, 'w') as f:
                            f.write(''.join('stale%d\n' % i for i in range(total + 5)))
                        n_preexisting[0] += 1
                jobs.append((args, desc, flags, full, N, ofile))

    def runcli(job):
        out, err, code = session.cli(rcopy, 'prince_ling.py', job[0], stdin='open')
        if job[5]:
            enc = 'utf-8'
            with open(job[5], 'rb') as f:
                return session.stdout_lines(f.read()), session.stdout_lines(out)
        return session.stdout_lines(out), None

    with ThreadPoolExecutor(core.NCPU) as ex:
        outs = list(ex.map(runcli, jobs))
    for (args, desc, flags, full, N, ofile), (got, stdout_when_file) in zip(jobs, outs):
        n_eff = N if N is not None else len(full) + 1
        tid += 1
        strings.extend(got)
        etraces.append({'tid': tid, 'kind': 'limit', 'N': n_eff, 'full': [expand.cps(s) for s in full],
                        'lines': [expand.cps(s) for s in got], 'hasout': bool(ofile),
                        'stdout': [expand.cps(s) for s in full[:n_eff]] if ofile else []})
        meta[tid] = {'ruleset': desc, 'flags': flags, 'N': N, 'check': 'prince_ling.py ' + ('-o file' if ofile else 'stdout'),
                     'args': args, 'got': len(got), 'stdout_when_file': stdout_when_file}

    v1, st1 = core.validate_traces('TrPTQ.tla', qtraces, timeout=600)
    updir = core.scratch('up')
    upfile = os.path.join(updir, 'up.json')
    with open(upfile, 'w') as f:
        json.dump(expand.up_table(strings), f)
    v2, st2 = core.validate_traces('TrExpand.tla', etraces, env={'UP_FILE': upfile}, chunk=150, timeout=600)
    v3, st3 = core.validate_traces('TrLoader.tla', ltraces, chunk=200, timeout=300)
    for t in ltraces:
        v = v3[t['tid']]
        if v[0] != 'ACCEPT':
            m = lmeta[t['tid']]
            verdict.violation(dict(m, clause='C17_' + str(v[2])), 'clause C17_%s; file %s loaded %s' % (v[2], m['file'], m['loaded']))
    for t in qtraces:
        v = v1[t['tid']]
        if v[0] != 'ACCEPT':
            m = meta[t['tid']]
            verdict.violation(dict(m, clause=v[3], event=v[2]), 'clause %s at event %s; %s' % (v[3], v[2], core.short(m['flags'])))
    for t in etraces:
        v = v2[t['tid']]
        if v[0] != 'ACCEPT':
            m = meta[t['tid']]
            w = dict(m, clause=v[2])
            if t['kind'] == 'limit':
                w['want'] = min(t['N'], len(t['full']))
            verdict.violation(w, 'clause %s; %s' % (v[2], core.short({k: m[k] for k in m if k != 'ruleset'}, 200)))
    def corrupt(t):
        if t['kind'] == 'limit' and len(t['lines']) >= 2 and not t['hasout']:
            t['lines'] = t['lines'] + [t['lines'][0]]       # one word more than asked
            return t
        return None
    accepted = [t for t in etraces if v2[t['tid']][0] == 'ACCEPT']
    selftest = core.binding_selftest('TrExpand.tla', accepted, corrupt, env={'UP_FILE': upfile})
    verdict.matcher('C17-F6-size-overshoots-inside-group',
                    lambda w: w.get('clause') == 'C09_length' and w.get('got', 0) > w.get('want', 0))
    rc, n_viol, n_known = verdict.finish()
    alltr = qtraces + etraces
    distinct = len({json.dumps({k: v for k, v in t.items() if k != 'tid'}, sort_keys=True) for t in alltr})
    s = etraces[-1]
    cov = {'states': mc['states'], 'transitions': mc['transitions'],
           'traces_validated_against_impl': len(alltr),
           'samples': [{'meta': {k: v for k, v in meta[s['tid']].items() if k != 'ruleset'},
                        'lines': [''.join(map(chr, x)) for x in s['lines']][:12]}],
           'model_checking': mc, 'evaluations': len(alltr), 'distinct_nontrivial': distinct,
           'rule': 'queue trace = one exhaustive run of the real PcfgQueue on a Prince grammar; pt trace = one Prince pre-terminal expanded; '
                   'limit trace = create_prince_wordlist(size=N) in-process or prince_ling.py subprocess (stdout / -o file)',
           'rulesets': len(rdirs), 'cli_runs': len(jobs), 'cli_runs_writing_over_an_older_longer_file': n_preexisting[0],
           'trace_validation': {'TrPTQ': st1, 'TrExpand': st2}, 'exhaustive': False, 'binding_selftest': selftest,
           'known_findings_reproduced': n_known, 'violation_histogram': verdict.histogram()}
    core.write_evidence(pid, tier, seed, 'model_checking', cov, time.time() - t0, violations=n_viol,
                        assumptions=['TLC', 'rank abstraction of floats', 'str.upper() as meaning of U'])
    return rc
