"""C20: edit_rules only removes base structures, and only those that fail the filter.
Model: spec/EditRules.tla; verdict: spec/TrEdit.tla."""
import hashlib
import json
import os
import random
import re
import shutil
import time
from concurrent.futures import ThreadPoolExecutor

from . import core, ptq, expand, session, rulesets

TERMS = {
    'A1': [('a', 0.6), ('b', 0.4)], 'C1': [('L', 0.75), ('U', 0.25)],
    'A2': [('ab', 1.0)], 'C2': [('LL', 0.5), ('UL', 0.5)],
    'A3': [('cat', 0.5), ('dog', 0.5)], 'C3': [('LLL', 1.0)],
    'A8': [('password', 1.0)], 'C8': [('LLLLLLLL', 0.75), ('ULLLLLLL', 0.25)],
    'A10': [('abcdefghij', 1.0)], 'C10': [('L' * 10, 1.0)],
    'A12': [('abcdefghijkl', 1.0)], 'C12': [('L' * 12, 1.0)],
    # a three-digit length (the shipped Default ruleset has A101 and A228)
    'A101': [('abcdefghij' * 10 + 'k', 1.0)], 'C101': [('L' * 101, 1.0)],
    'D1': [('1', 0.5), ('2', 0.5)], 'D2': [('12', 1.0)], 'D3': [('123', 0.75), ('007', 0.25)],
    'O1': [('!', 0.5), (' ', 0.5)], 'O2': [('!!', 1.0)],
    'K4': [('qwer', 0.5), ('1qaz', 0.5)], 'K5': [('qwert', 1.0)],
    'Y1': [('1999', 0.5), ('2020', 0.5)],
    'X1': [('#1', 0.5), ('<3', 0.25), ('No.1', 0.25)],
}
UNITS = ['A1', 'A2', 'A3', 'A8', 'A10', 'A12', 'D1', 'D2', 'D3', 'O1', 'O2', 'K4', 'K5', 'Y1', 'X1']
REGEXES = ['^A', 'D', '^[^M]', 'A[0-9]+D', 'K|Y', '[0-9]{2}', '^(A[0-9]+)+$',
           # classes and escapes whose meaning depends on the case of the letter (a regex is matched as given)
           r'A\d+D', r'\d\d$', r'^(A\d+)+$', r'^\w\d+$', r'[a-z]', r'\bA1\d']


def mc_stage():
    mod = os.path.join(core.SPEC, 'MC_EditRules.tla')
    r = core.tlc_must_pass(mod, os.path.join(core.SPEC, 'MC_EditRules.cfg'), 'EditRules (X labels excluded)', timeout=900)
    out = {'cfg': 'MC_EditRules.cfg', 'states': r.distinct, 'transitions': r.generated, 'wall_s': round(r.wall, 1)}
    # the open finding lives in the model: without the exclusion the invariant must fail inside the witness class
    r2 = core.tlc(mod, os.path.join(core.SPEC, 'MC_EditRules_open.cfg'), timeout=900)
    out['open_finding_in_model'] = {'cfg': 'MC_EditRules_open.cfg', 'violated': r2.violated,
                                    'counterexample_has_X': '"X"' in r2.out}
    return out


def tokens(label):
    return [[m.group(1), int(m.group(2)) if m.group(2) else 0] for m in re.finditer(r'([A-Z])([0-9]*)', label)]


def read_grammar(path):
    recs = []
    for v, p in rulesets.neutral_value_prob(os.path.join(path, 'Grammar', 'grammar.txt')):
        recs.append({'s': tokens(v), 'p': expand.cps(p), 'label': v})
    return recs


def digest_tree(path, skip=()):
    h = {}
    for root, dirs, files in os.walk(path):
        for fn in files:
            full = os.path.join(root, fn)
            rel = os.path.relpath(full, path)
            if rel in skip:
                continue
            with open(full, 'rb') as f:
                h[rel] = hashlib.sha256(f.read()).hexdigest()
    return h


def make_ruleset(rng, path, with_x):
    units = [u for u in UNITS if with_x or u != 'X1']
    structs = set()
    while len(structs) < rng.randint(3, 9):
        k = rng.randint(1, 3)
        s = ''.join(rng.choice(units) for _ in range(k))
        if with_x and rng.random() < 0.4 and 'X1' not in s:
            s += 'X1'
        structs.add(s)
    structs = sorted(structs)
    rng.shuffle(structs)
    if rng.random() < 0.6:
        structs.append(rng.choice(['A101', 'A101D2', 'D1A101']))
    if rng.random() < 0.7:
        structs.insert(rng.randint(0, len(structs)), 'M')
    ps = sorted((rng.choice([0.3, 0.2, 0.1, 0.05, 0.25, 0.125]) for _ in structs), reverse=True)
    base = list(zip(structs, ps))
    rulesets.write_ruleset(path, TERMS, base, omen_prob=[(1, 0.5), (2, 0.25)], omen_keyspace=[(1, 1), (2, 1)])
    return base


def guess_lengths(path):
    """(min, max) length of the guesses the real guesser makes for every loaded base structure, IN FILE ORDER (the loader keeps
    the order of grammar.txt; the label the loader derived is not trusted - a structure is identified by its line);
    None for the Markov structure"""
    pcfg = ptq.load_pcfg(path)
    out = []
    n_pts = 0
    for b in pcfg.base:
        k_ = 1
        for t in b['replacements']:
            k_ *= max(1, len(pcfg.grammar.get(t, [])))
        n_pts += k_
    if n_pts > 20000:
        # a ruleset of real size (the shipped ones): the guesses of a structure are the product of independent choices, so the
        # shortest / longest guess is the sum of the shortest / longest value of every variable - no enumeration
        span = {}
        for t, groups in pcfg.grammar.items():
            if t[0] in 'CM':
                continue
            ls = [len(v) for g in groups for v in g['values']]
            span[t] = (min(ls), max(ls)) if ls else (0, 0)
        for b in pcfg.base:
            if 'M' in b['replacements']:
                out.append(None)
                continue
            reps = [t for t in b['replacements'] if t[0] != 'C']
            out.append((sum(span.get(t, (0, 0))[0] for t in reps), sum(span.get(t, (0, 0))[1] for t in reps)))
        return out
    by_base = {}
    for b, pt in expand.all_pts(pcfg):
        by_base.setdefault(id(b), []).append(pt)
    for b in pcfg.base:
        if 'M' in b['replacements']:
            out.append(None)
            continue
        lo, hi = 10 ** 9, 0
        for pt in by_base.get(id(b), []):
            lines, n = expand.expand_real(pcfg, pt)
            for ln in lines:
                lo, hi = min(lo, len(ln)), max(hi, len(ln))
        out.append((lo, hi) if hi else (0, 0))
    return out


def main(pid, tier, seed):
    t0 = time.time()
    rng = random.Random(seed)
    verdict = core.Verdict(pid)
    mc = mc_stage()
    rcopy = core.repo_copy('cli')
    jobs = []
    n_rules = 10 if tier == 'quick' else 300
    for k in range(n_rules):
        with_x = (k % 3 == 2)
        name = 'r%d' % k
        src = os.path.join(rcopy, 'Rules', name)
        base = make_ruleset(rng, src, with_x)
        n_edits = 6 if tier == 'quick' else 14
        for e in range(n_edits):
            mn = rng.choice([0, 0, 1, 2, 3, 4, 5, 6, 8, 10, 100, 101])
            mx = rng.choice([0, 0, 3, 4, 5, 6, 8, 9, 10, 12, 14, 102, 103])
            if mx and mn > mx:
                mn, mx = mx, mn
            ts = rng.choice([None, None, 'A,D', 'A,D,O', 'A,D,O,K,Y,X', 'a,d,y', 'M,A', 'D'])
            rx = rng.choice([None, None, None] + [[r] for r in REGEXES] + [['^A', 'D']])
            copy = rng.random() < 0.5
            jobs.append(dict(k=k, e=e, name=name, mn=mn, mx=mx, ts=ts, rx=rx, copy=copy, with_x=with_x, base=base))
        # exact bounds: min = max = the label length of one structure, so every guess of every survivor must have exactly that
        # length (structures whose letters have several case masks first: each mask must spell a word of the same length)
        def lab_len(s_):
            return sum(4 if m_.group(1) == 'Y' else int(m_.group(2)) for m_ in re.finditer(r'([A-Z])([0-9]+)', s_))
        cands_ = [s_ for s_, _ in base if s_ != 'M' and 'X' not in s_ and lab_len(s_) < 100]
        cands_.sort(key=lambda s_: (not any(u in s_ for u in ('A2', 'A1D', 'A1O', 'A1K', 'A1Y', 'A8')), s_))
        for x_, s_ in enumerate(cands_[:2]):
            jobs.append(dict(k=k, e=n_edits + 1 + x_, name=name, mn=lab_len(s_), mx=lab_len(s_), ts=None, rx=None, copy=False,
                             with_x=with_x, base=base))
        if any('A101' in s_ for s_, _ in base):
            # a bound only the three-digit structure satisfies
            jobs.append(dict(k=k, e=n_edits, name=name, mn=100, mx=rng.choice([0, 103, 110]), ts=None, rx=None, copy=False, with_x=with_x, base=base))

    # ---- the shipped ruleset (every label shape the trainer emits on real data: three-digit lengths, years, context strings,
    # ---- walks, more than ten thousand structures) through the same edits
    n_shipped = 0
    sd_ = os.path.join(core.REPO, 'Rules', 'Default')
    if os.path.isdir(os.path.join(sd_, 'Grammar')):
        shutil.copytree(sd_, os.path.join(rcopy, 'Rules', 'shipped'))
        sbase = [(x['label'], x['p']) for x in read_grammar(sd_)]
        sedits = [dict(mn=8, mx=8), dict(mn=0, mx=6), dict(mn=12, mx=0), dict(mn=0, mx=0, ts='A,D'), dict(mn=6, mx=10, rx=[r'^A\d+D\d+$']),
                  dict(mn=0, mx=0, ts='A,D,O,K,Y,X', rx=['Y']), dict(mn=100, mx=0), dict(mn=1, mx=1)]
        for e_, ed in enumerate(sedits[:3] + [rng.choice(sedits[3:])] if tier == 'quick' else sedits):
            jobs.append(dict(k=n_rules, e=e_, name='shipped', mn=ed.get('mn', 0), mx=ed.get('mx', 0), ts=ed.get('ts'), rx=ed.get('rx'),
                             copy=(e_ % 2 == 0), with_x=True, base=[[s_, 0] for s_, _ in sbase[:40]]))
            n_shipped += 1

    n_linked = [0]

    def runjob(j):
        # every edit works on its own private copy of the generated ruleset
        work = os.path.join(rcopy, 'Rules', '%s_e%d' % (j['name'], j['e']))
        shutil.copytree(os.path.join(rcopy, 'Rules', j['name']), work)
        wname = os.path.basename(work)
        if j['copy'] and j['e'] % 2 == 0 and j['name'] != 'shipped':
            # a ruleset that shares its structure list with another one through a link (`cp -rs` clones): --copy must leave the
            # shared file alone (the digest of the source follows the link)
            shared = os.path.join(rcopy, 'Rules', wname + '_shared')
            os.makedirs(shared)
            shutil.move(os.path.join(work, 'Grammar', 'grammar.txt'), os.path.join(shared, 'grammar.txt'))
            os.symlink(os.path.join('..', '..', wname + '_shared', 'grammar.txt'), os.path.join(work, 'Grammar', 'grammar.txt'))
            n_linked[0] += 1
        args = ['-r', wname]
        target = work
        if j['copy']:
            args += ['--copy', wname + '_copy']
            target = work + '_copy'
        if j['mn']:
            args += ['--min_length', str(j['mn'])]
        if j['mx']:
            args += ['--max_length', str(j['mx'])]
        if j['ts']:
            args += ['--terminal_set', j['ts']]
        if j['rx']:
            args += ['--regex', ','.join(j['rx'])]
        before = read_grammar(work)
        dig_before = digest_tree(work)
        out, err, code = session.cli(rcopy, 'edit_rules.py', args, stdin='devnull')
        res = dict(args=args, before=before, stdout=out.decode('utf-8', 'replace')[-300:], stderr=err.decode('utf-8', 'replace')[-300:])
        if not os.path.exists(os.path.join(target, 'Grammar', 'grammar.txt')):
            res['failed'] = True
            return res
        res['after'] = read_grammar(target)
        dig_after = digest_tree(target)
        skip = os.path.join('Grammar', 'grammar.txt')
        res['others_same'] = {k: v for k, v in dig_before.items() if k != skip} == {k: v for k, v in dig_after.items() if k != skip}
        res['source_same'] = (digest_tree(work) == dig_before) if j['copy'] else True
        res['target'] = target
        return res

    with ThreadPoolExecutor(core.NCPU) as ex:
        results = list(ex.map(runjob, jobs))
    # in-process work (redirects sys.stderr, so not inside the worker threads)
    for r in results:
        if r.get('failed'):
            continue
        try:
            r['glen'] = guess_lengths(r['target'])
        except Exception as ex:
            r['glen_error'] = repr(ex)
            r['glen'] = []

    traces, meta = [], {}
    xvals = [len(v) for v, _ in TERMS['X1']]
    for tid, (j, r) in enumerate(zip(jobs, results), 1):
        m = {'args': r['args'], 'base': j['base'], 'with_x': j['with_x']}
        meta[tid] = m
        if r.get('failed'):
            traces.append(None)
            verdict.violation(dict(m, clause='edit_rules_failed', out=r['stdout'], err=r['stderr']), 'edit_rules.py produced no grammar.txt: %s' % r['args'])
            continue
        before, after = r['before'], r['after']
        # keep: greedy left-to-right matching of after records into before (subsequence witness)
        keep, pos = [], 0
        for a in after:
            found = None
            for i in range(pos, len(before)):
                if before[i]['s'] == a['s'] and before[i]['p'] == a['p']:
                    found = i
                    break
            if found is None:
                keep.append(0)
            else:
                keep.append(found + 1)
                pos = found + 1
        ts = [x.upper() for x in j['ts'].split(',')] if j['ts'] else []
        rxs = j['rx'] or []
        rxok = [all(re.search(rx, b['label']) for rx in rxs) for b in before]
        glen = []
        for i_, a in enumerate(after):
            g_ = r['glen'][i_] if i_ < len(r['glen']) else None
            lo, hi = g_ if g_ else (0, 0)
            glen.append([lo, hi])
        m['kept'] = [a['label'] for a in after]
        m['removed'] = [b['label'] for i, b in enumerate(before) if (i + 1) not in keep]
        m['glen'] = {a['label']: g for a, g in zip(after, glen)}
        traces.append({'tid': tid, 'before': [{'s': b['s'], 'p': b['p']} for b in before],
                       'after': [{'s': a['s'], 'p': a['p']} for a in after], 'keep': keep,
                       'mn': j['mn'], 'mx': j['mx'], 'ts': ts, 'rx': rxok,
                       'xmin': min(xvals), 'xmax': max(xvals), 'glen': glen,
                       'others_same': bool(r['others_same']), 'source_same': bool(r['source_same'])})
    real = [t for t in traces if t is not None]
    verdicts, st = core.validate_traces('TrEdit.tla', real, timeout=300)
    for t in real:
        v = verdicts[t['tid']]
        if v[0] != 'ACCEPT':
            m = meta[t['tid']]
            failing = list(v[1]) if isinstance(v[1], (tuple, list)) else [v[1]]
            # which kept structures break the bounds
            bad = [lab for lab, g in m['glen'].items() if g[0] and not (g[0] >= t['mn'] and (t['mx'] == 0 or g[1] <= t['mx']))]
            verdict.violation(dict(m, clause='+'.join(failing), failing=failing, offending=bad),
                              'clauses %s; args %s; offending kept structures %s' % (failing, ' '.join(m['args']), bad))

    def corrupt(t):
        if len(t['after']) >= 1:
            t['after'][0]['p'] = t['after'][0]['p'] + [ord('1')]      # a survivor whose probability text was altered
            return t
        return None
    accepted = [t for t in real if verdicts[t['tid']][0] == 'ACCEPT']
    selftest = core.binding_selftest('TrEdit.tla', accepted, corrupt)

    def x_only(w):
        f = set(w.get('failing', []))
        return bool(f) and f <= {'C20_kept_pass_the_filter', 'C20_guess_lengths_within_bounds'} \
            and w.get('offending') and all('X' in lab for lab in w['offending'])
    verdict.matcher('C20-F12-context-label-length', x_only)
    rc, n_viol, n_known = verdict.finish()
    distinct = len({json.dumps({k: v for k, v in t.items() if k != 'tid'}, sort_keys=True) for t in real
                    if len(t['after']) != len(t['before'])})
    s = real[min(2, len(real) - 1)]
    cov = {'states': mc['states'], 'transitions': mc['transitions'],
           'traces_validated_against_impl': len(real),
           'samples': [{'args': meta[s['tid']]['args'], 'before': [x[0] for x in meta[s['tid']]['base']],
                        'kept': meta[s['tid']]['kept'], 'removed': meta[s['tid']]['removed']}],
           'model_checking': mc, 'evaluations': len(jobs), 'distinct_nontrivial': distinct,
           'rule': 'one trace = one real edit_rules.py subprocess on a private copy of a generated ruleset (random filters, '
                   'with/without --copy) followed by the real guesser on the result; non-trivial = at least one structure removed',
           'rulesets': n_rules, 'copies_of_rulesets_whose_structure_list_is_a_link': n_linked[0], 'edits_of_the_shipped_ruleset': n_shipped, 'with_context_labels': sum(1 for j in jobs if j['with_x']),
           'trace_validation': st, 'exhaustive': False, 'known_findings_reproduced': n_known, 'binding_selftest': selftest,
           'violation_histogram': verdict.histogram()}
    core.write_evidence(pid, tier, seed, 'model_checking', cov, time.time() - t0, violations=n_viol,
                        assumptions=['TLC', 'regex matching evaluated with Python re and passed as booleans',
                                     'file digests compared in Python', 'fate of the Markov structure under a length filter is unspecified (either accepted)'])
    return rc
