"""Fresh-interpreter worker: load each ruleset given on stdin (json lines: {dir, flags}) and print the
uninterrupted pop sequence.  Used for the two-run determinism clause of C01 (run with a different
PYTHONHASHSEED than the recording process)."""
import json
import sys

from . import ptq


def main():
    for line in sys.stdin:
        job = json.loads(line)
        try:
            pcfg = ptq.load_pcfg(job['dir'], **job.get('flags', {}))
            hist = ptq.run_history(pcfg, [], with_queue=False, max_pops=job.get('max_pops'))
            p, _ = ptq.to_traces(0, pcfg, hist, 'C01', exact=job.get('exact', True))
            sys.stdout.write(json.dumps(p['sess'][0]['ev']) + '\n')
        except Exception as ex:
            # (the history cannot be expressed over the grammar's grid, or the code raised: the second run is not the first)
            sys.stdout.write(json.dumps([['second run failed', repr(ex)[:120]]]) + '\n')
        sys.stdout.flush()


if __name__ == '__main__':
    main()
