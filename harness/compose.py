"""Composition stage (C03, C13): Compose.tla models trainer -> (guesser, scorer) on one training list with exact rational
probabilities; every training list of its model-checked space is run through the REAL trainer, guesser and scorer and the
observations are validated by TrCompose.tla (I_ clauses = the tools are the model, drift; C03_ / C13_ clauses = verdict)."""
import json
import math
import os
from fractions import Fraction

from . import core, train, ptq, expand


def mc_stage(tier):
    mod = os.path.join(core.SPEC, 'Compose.tla')
    cfg = os.path.join(core.SPEC, 'MC_Compose_%s.cfg' % tier)
    r = core.tlc_must_pass(mod, cfg, 'Compose ' + tier, timeout=6000)
    return {'cfg': os.path.basename(cfg), 'states': r.distinct, 'transitions': r.generated, 'wall_s': round(r.wall, 1)}


def export_space(max_pw, max_list, max_cand):
    d = core.scratch('compexp')
    cfg = os.path.join(d, 'e.cfg')
    with open(cfg, 'w') as f:
        f.write('SPECIFICATION ESpec\nCONSTANTS\n  MaxPw = %d\n  MaxList = %d\n  MaxCand = %d\n' % (max_pw, max_list, max_cand))
    out = os.path.join(d, 'space.json')
    r = core.tlc(os.path.join(core.SPEC, 'Export_Compose.tla'), cfg, workers=1, timeout=900, env={'OUT_FILE': out}, deadlock=False)
    if not os.path.exists(out):
        raise core.MachineryError('Compose export failed:\n' + r.out[-2000:])
    with open(out) as f:
        sp = json.load(f)
    return [[''.join(p) for p in l] for l in sp['lists']], [''.join(c) for c in sp['cands']]


def rat(p):
    """exact small rational of a float that is a product of count / total factors"""
    if p == 0:
        return Fraction(0)
    fr = Fraction(p).limit_denominator(1 << 20)
    if abs(float(fr) - p) > 1e-12 * abs(p):
        raise ValueError('not a small rational: %r' % p)
    return fr


def struct_of(label):
    import re
    return [[m.group(1), int(m.group(2) or 0)] for m in re.finditer(r'([A-Z])([0-9]*)', label)]


def real_trace(tid, pws, cands):
    from .check_score import make_scorer
    raised = None
    t = {'tid': tid, 'list': [list(p) for p in pws], 'tables': [], 'bases': [], 'lang': [], 'scores': [], 'den': 1, 'raised': False}
    res = train.train(pws, ngram=2, alphabet_size=100, coverage=1)
    if not res['ok']:
        t['raised'] = True
        return t, 'training failed: %s' % (res['error'] or res['stdout'][-200:])
    try:
        pp = res['captured']['pcfg_parser']
        for tab, ctr in (('A', pp.count_alpha), ('C', pp.count_alpha_masks), ('D', pp.count_digits), ('O', pp.count_other)):
            for n, c in ctr.items():
                for v, k in c.items():
                    t['tables'].append({'tab': tab, 'n': n, 'v': list(v), 'c': k})
        extra = sum(len(c) for c in pp.count_keyboard.values()) + len(pp.count_years) + len(pp.count_context_sensitive)
        if extra:
            raised = 'segments outside the model (walk / year / context) on this alphabet'
        for k, v in pp.count_base_structures.items():
            t['bases'].append({'s': struct_of(k), 'c': int(v)})
        pcfg = ptq.load_pcfg(res['dir'], skip_brute=True)
        ev = ptq.run_history(pcfg, [], with_queue=False)
        lang = []
        for it, _ in ev['sessions'][0]['ev']:
            lines, n = expand.expand_real(pcfg, it['pt'])
            for ln in lines:
                lang.append((ln, rat(it['prob'])))
        den = 1
        for _, fr in lang:
            den = den * fr.denominator // math.gcd(den, fr.denominator)
        t['den'] = den
        t['lang'] = [{'g': list(g), 'p': [fr.numerator * (den // fr.denominator), den]} for g, fr in lang]
        sc = make_scorer(res['dir'])
        if sc is None:
            raised = raised or 'scorer could not load the ruleset'
        else:
            for s in cands:
                fr = rat(sc.parse(s)[2])
                t['scores'].append({'s': list(s), 'p': [fr.numerator, fr.denominator]})
    except Exception as ex:
        raised = raised or repr(ex)
    t['raised'] = bool(raised)
    return t, raised


def stage(tier, rng, verdict, pid):
    core.use_repo()
    mc = mc_stage(tier)
    lists, cands = export_space(2 if tier == 'quick' else 3, 2, 3)
    n = 120 if tier == 'quick' else 1500
    singles = [l for l in lists if len(l) == 1]
    pairs = [l for l in lists if len(l) == 2]
    pick = (singles if len(singles) <= n // 3 else rng.sample(singles, n // 3)) + rng.sample(pairs, min(len(pairs), n - min(len(singles), n // 3)))
    traces, meta = [], {}
    for i, pws in enumerate(pick, 1):
        t, err = real_trace(i, pws, cands)
        traces.append(t)
        meta[i] = {'training_list': pws, 'error': err, 'kind': 'composition'}
    # the common denominator of T.lang must stay a 32-bit number for TLC
    for t in traces:
        if t['den'] >= 1 << 30:
            raise core.MachineryError('denominator too large for TLC: %d' % t['den'])
    v, st = core.validate_traces('TrCompose.tla', traces, chunk=20, timeout=1800)
    want = 'C03_' if pid == 'C03' else 'C13_'
    drift = []
    n_bad = 0
    for t in traces:
        r = v[t['tid']]
        if r[0] == 'ACCEPT':
            continue
        m = meta[t['tid']]
        failing = list(r[1]) if isinstance(r[1], (tuple, list)) else [r[1]]
        prop = [c for c in failing if c.startswith(want)]
        if prop:
            n_bad += 1
            verdict.violation(dict(m, clause='+'.join(prop), failing=prop, check='composition', string=' '.join(m['training_list']),
                                   passwords=m['training_list']),
                              'clauses %s; training list %r %s' % (prop, m['training_list'], m['error'] or ''))
        if any(c.startswith('I_') for c in failing):
            drift.append({'training_list': m['training_list'], 'clauses': [c for c in failing if c.startswith('I_')]})

    def corrupt(t):
        if t['lang'] and not t['raised']:
            t['lang'] = t['lang'][1:]           # a guess the guesser did not make
            return t
        return None
    acc = [t for t in traces if v[t['tid']][0] == 'ACCEPT']
    selftest = core.binding_selftest('TrCompose.tla', acc, corrupt)
    return {'model_checking': mc, 'training_lists_of_model_space_run_through_real_tools': len(traces), 'candidates_scored_per_list': len(cands),
            'real_guesses': sum(len(t['lang']) for t in traces), 'trace_validation': st, 'binding_selftest': selftest, 'violations': n_bad,
            'impl_conformance': {'result': 'drift' if drift else 'conforms', 'n_drift': len(drift), 'drift_examples': drift[:3]}}
