"""A shared library of SPECIAL training lists.  Every list here was needed at some point to expose a seeded change
(see DESIGN.md 0.3); the trainer-consuming checks (C03 C05 C06 C11 C13 C18) all train on them."""


def special_lists():
    """-> {name: (passwords, options)}; options may fix coverage / ngram"""
    L = {}
    # three-word multi-words with per-word capitalisation (offsets of later words)
    L['multiword3'] = (['pass'] * 6 + ['word'] * 6 + ['love'] * 6 + ['passwordLove', 'passWordlove', 'lovePASSword', 'wordpassLOVE', 'passpassWORD', 'wordworD',
                       'lovepasSLove', 'passwordlove1', 'Passwordlove!'], {})
    # the same keyboard walk twice in one password; a walk followed by exactly one character
    L['walks'] = (['1qaz1qaz', '1qaz', 'zaq1!', 'zaq1 zaq1', '1qazM1qaz', '1q2w3e4r!', 'pass1qaz2wsx#', 'qwer1234', 'qwer12345', '1qaz', 'zaq1'], {})
    # exact probability tie between the two parents of a pre-terminal (dyadic count ratios)
    L['tie'] = (['pass347'] * 9 + ['pass582'] * 3 + ['word347'] * 3 + ['word582'] + ['!!', '9'], {})
    # only unsupported structures, Markov pseudo-count below 1
    L['unsupported_tiny'] = (['bob@aol.com'], {'coverage': 0.6})
    L['unsupported_pair'] = (['bob@aol.com', 'www.google.com12'], {'coverage': 0.8})
    # pass phrases: spaces (also NBSP, U+3000) inside, in front, at the end
    L['spaces'] = (['my dog', 'my dog', 'a b c', 'trailing1 ', ' lead', 'Monkey77  ', 'one two', 'red　sun', 'ab ab', 'ab ', 'my dog1'], {})
    # context strings with one character after them, years next to them, the '#1' look-ahead
    L['context'] = (['#1a', '#12', 'iam#1!', 'winner#1x2019', 'x<3', '<3#1', 'No.1', 'mr.x', 'abc#1', '#1234pass', 'love<3you'], {})
    # short letter runs glued over a separator (multi-word history)
    L['glue'] = (['my1love'] * 5 + ['baby'] * 5 + ['mylovebaby', 'i!love', 'love'] , {})
    # a password of exactly the maximum OMEN length, one longer, n-gram-length passwords
    L['lengths'] = (['abcabcabcabcabcabcabc'] * 4 + ['abcabcabcabcabcabcabca', 'abc', 'ab', 'abca', 'abcab', 'abcabc'], {})
    # many frequency tiers of one word length (the scorer's multi-word detector becomes active)
    L['tiers'] = (sum(([w] * n for w, n in (('love', 14), ('baby', 12), ('wolf', 10), ('frog', 8), ('bird', 6), ('fish', 4), ('tree', 2), ('moon', 1))), [])
                  + ['lovebaby', 'loveBaby', 'babyLOVE', 'lovewolfBaby', 'love1Baby'], {})
    # two- and three-digit segment lengths
    L['long_segments'] = (['strawberry', 'Strawberry', 'basketball1', 'abcdefghijkl', 'x' * 21, '12345678901', '!!!!!!!!!!!!'], {})
    # a three-word multi-word, then its two-word tail as a password of its own, then the same multi-words again (anything the
    # detector remembers between two parse() calls must not change what the second call returns)
    L['multiword_tails'] = (['love'] * 5 + ['cats'] * 5 + ['dogs'] * 5 + ['lovecatsdogs', 'catsdogs', 'CatsDogs7', 'lovecatsdogs', 'dogscatsdogs',
                            'lovelovecatsdogs', 'catsdogs1'], {})
    # a '19' / '20' that is not a year, followed later by something that ends in two digits; years touching digits; two years
    L['years'] = (['mike20jones99', 'route20_ab12', 'Anna19xx-Bo07!', 'pass20love12', '19x2019', '20pass2019', '2019', 'a1987b', '12019', '201920',
                   '1920', '2019x1987', 'x20x19x2001x'], {})
    # websites whose real top-level domain comes after an earlier-listed one that occurs only as a false positive ('.com' + letter),
    # e-mails with two top-level domains of equal length, blanks around an e-mail
    L['tlds'] = (['www.comics.org', 'my.community.net', 'the.network.de1', 'www.comet.com', 'joe@mail.org.net', 'sam@corp.uk.ca7',
                  ' alice@yahoo.com', 'bob@gmail.com ', 'www.community.horse.com', 'horSe.community', 'x.commerce.org!', '1qaz@gmail.com', '1qaz@mail.com.br', 'bob@mail.com.br'], {})
    # coverage boundaries
    L['coverage1'] = (['password1', 'Password1', 'love12', 'abc!'], {'coverage': 1})
    return L
