"""One guessing session in its own interpreter (its own string-hash seed, nothing shared with the session before it except the
files on disk - which is how the command-line tool is really used):
    python -m harness.session_worker <ruleset path> <save file> new|load <quit after N guesses | -> <limit | ->
prints one JSON object {lines, quit, saves, error}."""
import json
import sys


def main(argv):
    from . import core
    core.use_repo()
    from . import ptq, session
    path, fn, mode, g, limit = argv
    g = None if g == '-' else int(g)
    limit = None if limit == '-' else int(limit)
    out = {'lines': [], 'quit': False, 'saves': [], 'error': None, 'noload': False}
    try:
        if mode == 'new':
            pcfg = ptq.load_pcfg(path, save_file=fn)
            r = session.run_session(pcfg, session.new_save_config(), fn, quit_at_guess=g, limit=limit)
        else:
            cfg, info = session.load_save(fn)
            if cfg is None:
                out['noload'] = True
                print(json.dumps(out))
                return 0
            pcfg = ptq.load_pcfg(path, save_file=fn, skip_brute=info.get('skip_brute', False), skip_case=info.get('skip_case', False))
            r = session.run_session(pcfg, cfg, fn, load=True, quit_at_guess=g, limit=limit)
        out.update(lines=r['lines'], quit=bool(r['quit']), saves=list(r['saves']),
                   error=r.get('error'))
    except Exception as ex:
        out['error'] = repr(ex)
    sys.stdout.write(json.dumps(out))
    return 0


if __name__ == '__main__':
    sys.exit(main(sys.argv[1:]))
