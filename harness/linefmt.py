"""Character behaviour classes and measurement of the real readers / input filter (C07, C19).

The classes are computed over ALL code points from Python primitives; which classes the input filter
rejects, which each real reader splits a line on, and which it strips from the end of a value are then
*measured from the real functions* on representatives (every member of the small classes, first / last /
random members of the large ones).  The measured sets become constants of LineFormat.tla."""
import codecs
import contextlib
import io
import os
import random

from . import core

core.use_repo()

CLASSES = ['TAB', 'LF', 'CR', 'C0L', 'C0', 'NEL', 'LS', 'PS', 'SPACE', 'UWS', 'SUR', 'NONBMP', 'ORD']


def class_of(cp):
    c = chr(cp)
    if cp == 0x09:
        return 'TAB'
    if cp == 0x0a:
        return 'LF'
    if cp == 0x0d:
        return 'CR'
    if cp < 0x20:
        # controls that str.splitlines() treats as line boundaries (VT FF FS GS RS) vs the rest
        return 'C0L' if len(('a' + c + 'b').splitlines()) > 1 else 'C0'
    if cp == 0x85:
        return 'NEL'
    if cp == 0x2028:
        return 'LS'
    if cp == 0x2029:
        return 'PS'
    if cp == 0x20:
        return 'SPACE'
    if 0xd800 <= cp <= 0xdfff:
        return 'SUR'
    if c.isspace():
        return 'UWS'
    if cp > 0xffff:
        return 'NONBMP'
    return 'ORD'


def class_table():
    members = {k: [] for k in CLASSES}
    for cp in range(0x110000):
        members[class_of(cp)].append(cp)
    return members


def representatives(members, rng, per_large=12):
    reps = {}
    for k, lst in members.items():
        if len(lst) <= 64:
            reps[k] = list(lst)
        else:
            reps[k] = sorted(set([lst[0], lst[-1]] + rng.sample(lst, per_large)))
    return reps


# --------------------------------------------------------------------------
# the real functions, each wrapped as  value -> what it reads back from a one-record file
# --------------------------------------------------------------------------
def _quiet():
    return contextlib.redirect_stderr(io.StringIO())


def read_guesser(path, encoding):
    from lib_guesser import grammar_io
    sec = []
    with _quiet(), contextlib.redirect_stdout(io.StringIO()):
        ok = grammar_io._load_from_file(sec, path, encoding)
    out = []
    for g in sec:
        for v in g['values']:
            out.append((v, g['prob']))
    return ok, out


def read_scorer(path, encoding):
    from lib_scorer import grammar_io
    from collections import Counter
    c = Counter()
    with _quiet(), contextlib.redirect_stdout(io.StringIO()):
        ok = grammar_io._load_from_file(c, path, encoding)
    return ok, list(c.items())


def read_omen_guesser(path, encoding):
    """CP.level-style file read by the guesser's OMEN loader: returns [(ngram, level)]"""
    from lib_guesser.omen import input_file_io
    g = {'alphabet_encoding': encoding, 'max_level': 10}
    try:
        with _quiet(), contextlib.redirect_stdout(io.StringIO()):
            input_file_io._load_ngrams(os.path.dirname(path), os.path.basename(path), g, 'ep')
        return True, list(g['ep'].items())
    except Exception:
        return False, []


def read_omen_scorer(rule_dir, encoding):
    from lib_scorer.omen_scorer import OmenScorer
    try:
        with _quiet(), contextlib.redirect_stdout(io.StringIO()):
            sc = OmenScorer(rule_dir, encoding, 18)
        return True, sc
    except Exception:
        return False, None


def measure(reps, work, encoding='utf-8'):
    """-> dict(Rejects, SplitsG, SplitsS, SplitsOG, SplitsOS, StripsOG, StripsOS, refine: [...])
    A class is in a set if ANY tested member shows the behaviour; `refine` lists classes whose tested members
    disagree (the partition would have to be refined)."""
    from lib_trainer.trainer_file_input import check_valid
    os.makedirs(work, exist_ok=True)
    res = {k: set() for k in ('Rejects', 'SplitsG', 'SplitsS', 'SplitsOG', 'SplitsOS', 'StripsOG', 'StripsOS')}
    disagree = []
    for k, cps in reps.items():
        seen = {name: set() for name in res}
        for cp in cps:
            c = chr(cp)
            if k == 'SUR':
                # lone surrogates cannot be encoded: the trainer drops them as encoding errors
                seen['Rejects'].add(True)
                continue
            seen['Rejects'].add(not check_valid('x' + c + 'y'))
            try:
                data = ('x' + c + 'y\t0.5\n').encode(encoding)
            except UnicodeEncodeError:
                continue
            p = os.path.join(work, 'probe.txt')
            with open(p, 'wb') as f:
                f.write(data)
            ok, vals = read_guesser(p, encoding)
            seen['SplitsG'].add(not (ok and [v for v, _ in vals] == ['x' + c + 'y']))
            ok, vals = read_scorer(p, encoding)
            seen['SplitsS'].add(not (ok and [v for v, _ in vals] == ['x' + c + 'y']))
            # OMEN files: level TAB ngram LF  (value last on the line)
            od = os.path.join(work, 'Omen')
            os.makedirs(od, exist_ok=True)
            for name, val in (('mid', 'x' + c + 'y'), ('end', 'xy' + c)):
                with open(os.path.join(od, 'EP.level'), 'wb') as f:
                    f.write(('0\t' + val + '\n').encode(encoding))
                ok, vals = read_omen_guesser(os.path.join(od, 'EP.level'), encoding)
                bad = not (ok and [v for v, _ in vals] == [val])
                seen['SplitsOG' if name == 'mid' else 'StripsOG'].add(bad)
                for fn in ('IP.level', 'CP.level'):
                    with open(os.path.join(od, fn), 'wb') as f:
                        f.write(('0\t' + val + '\n').encode(encoding))
                with open(os.path.join(od, 'LN.level'), 'w') as f:
                    f.write('0\n0\n0\n')
                ok, sc = read_omen_scorer(work, encoding)
                bad = not (ok and list(sc.ip) == [val])
                seen['SplitsOS' if name == 'mid' else 'StripsOS'].add(bad)
        for name in res:
            if True in seen[name]:
                res[name].add(k)
            if len(seen[name]) > 1:
                disagree.append((k, name))
    res['refine'] = disagree
    return res
