"""C12 (stream independent of thread timing / stdin) and C15 (Markov level resumes at the next guess).
Model: spec/Session.tla; verdict: spec/TrSession.tla (+ TrOmen 'resume' for the generator part of C15)."""
import json
import os
import pty
import random
import shutil
import time
from concurrent.futures import ThreadPoolExecutor

from . import core, ptq, session, sessrules, gated, omen


def mc_stage(tier, pid='C12'):
    mod = os.path.join(core.SPEC, 'MC_Session.tla')
    out = {'configs': [], 'states': 0, 'transitions': 0}
    for name in ('MC_Session_A.cfg', 'MC_Session_B.cfg'):
        r = core.tlc_must_pass(mod, os.path.join(core.SPEC, name), 'Session ' + name, timeout=1200, coverage=(name.endswith('A.cfg')))
        out['configs'].append({'cfg': name, 'states': r.distinct, 'transitions': r.generated, 'action_coverage': r.coverage()})
        out['states'] += r.distinct
        out['transitions'] += r.generated
    if pid == 'C12':
        # liveness under weak fairness of both threads: every session ends, a quit takes effect (the process ends with a save
        # that describes the stream, or the whole run was already complete), a typed 'q' is handed over
        lname = 'MC_Session_live.cfg' if tier == 'quick' else 'MC_Session_live_thorough.cfg'
        r3 = core.tlc_must_pass(mod, os.path.join(core.SPEC, lname), 'Session liveness', timeout=3000)
        out['configs'].append({'cfg': lname, 'states': r3.distinct, 'transitions': r3.generated,
                               'properties': ['EverySessionEnds', 'QuitTakesEffect', 'TypedQuitIsSeen']})
    if pid == 'C15':
        # the generator model with the SaveAndResume action (pickle cursors + parse tree, fresh memo)
        cfg2 = os.path.join(core.SPEC, 'MC_OmenEnum_%s.cfg' % tier)
        r2 = core.tlc_must_pass(os.path.join(core.SPEC, 'MC_OmenEnum.tla'), cfg2, 'OmenEnum ' + tier, timeout=6000)
        out['configs'].append({'cfg': os.path.basename(cfg2), 'states': r2.distinct, 'transitions': r2.generated})
        out['states'] += r2.distinct
        out['transitions'] += r2.generated
    return out


class Interner:
    def __init__(self):
        self.ids = {}

    def __call__(self, s):
        return self.ids.setdefault(s, len(self.ids) + 1)


def saved_prob(fn):
    import configparser
    cp = configparser.ConfigParser()
    try:
        cp.read(fn)
        return cp.getfloat('guessing_info', 'max_probability')
    except Exception:
        return None


def build_trace(tid, E, sessions):
    """E: [(ptno, m, guess, prob)], sessions: [dict(lines, q, saved)]  ->  TrSession trace"""
    I = Interner()
    NE = len(E)
    Et = [{'p': p, 'm': bool(m), 'g': I(g)} for p, m, g, _ in E]
    first_of = {}
    for k, (p, m, g, pr) in enumerate(E, 1):
        first_of.setdefault(p, k)
    npos = 1
    rcount = 0
    out = []
    for s in sessions:
        tie = 0
        if s.get('saved') is not None:
            for p, m, g, pr in E:
                if pr == s['saved']:
                    tie = p
                    break
        x = []
        pos = npos
        lines = s['lines']
        i = 0
        while i < len(lines) and pos <= NE and E[pos - 1][2] == lines[i]:
            x.append([pos, I(lines[i])])
            pos += 1
            i += 1
        replay = False
        if i < len(lines):
            # whatever follows: align with the tied pre-terminal's positions, walked cyclically from where
            # an earlier replay stopped; else no alignment
            tpos = [k for k, e in enumerate(E, 1) if e[0] == tie]
            while i < len(lines):
                cand = tpos[rcount % len(tpos)] if tpos else 0
                if cand and E[cand - 1][2] == lines[i]:
                    x.append([cand, I(lines[i])])
                    rcount += 1
                    replay = True
                else:
                    x.append([0, I(lines[i])])
                i += 1
        out.append({'x': x, 'q': bool(s['q']), 'tie': tie, 'qn': -1 if s.get('qn') is None else int(s['qn']),
                    'noise': bool(s.get('noise'))})
        npos = NE + 1 if replay else pos
    return {'tid': tid, 'E': Et, 'sess': out}


def store_state(fn, PTS):
    """abstract persistent store from the real .sav: (maxp rank, hasomen, ognum)"""
    import configparser
    N = len(PTS)
    cp = configparser.ConfigParser()
    try:
        cp.read(fn)
        mp = cp.getfloat('guessing_info', 'max_probability')
    except Exception:
        return N + 1, False, 0, 0
    rank = N + 1
    for i, p in enumerate(PTS, 1):
        if p['prob'] == mp:
            rank = N + 1 - i
            break
    has = cp.has_option('guessing_info', 'omen_guess_number')
    og = cp.getint('guessing_info', 'omen_guess_number') if has else 0
    ng = cp.getint('session_info', 'num_guesses') if cp.has_option('session_info', 'num_guesses') else 0
    return rank, has, og, ng


def itrace(tid, E, PTS, r, script, init, fn, start_pos):
    """gate log of one gated session -> TrSession_I trace.  start_pos: 0-based index in E where this session's
    first guess is expected (used to name every printed guess as <<pt, k>>)"""
    idx_in_pt = {}
    names = []
    cnt = {}
    for (p, m, g, pr) in E:
        cnt[p] = cnt.get(p, 0) + 1
        names.append([p, cnt[p]])
    ev = []
    pos = start_pos
    for who, gate, info in r['log']:
        if gate == 'blocked_forever':
            continue
        a = 0
        if gate == 'emit':
            if pos < len(E) and E[pos][2] == info:
                a = names[pos]
                pos += 1
            else:
                a = [0, 0]
        ev.append({'w': who, 'g': gate, 'a': a})
    stream = []
    pos = start_pos
    for ln in r['lines']:
        if pos < len(E) and E[pos][2] == ln:
            stream.append(names[pos])
            pos += 1
        else:
            stream.append([0, 0])
    rank, has, og, ng = store_state(fn, PTS)
    return {'tid': tid, 'init': init, 'script': list(script), 'ev': ev,
            'final': {'stream': stream, 'maxp': rank, 'hasomen': has, 'ng': ng}}


def worker_session(path, fn, mode, g, limit, hashseed):
    """one session in its own interpreter with its own string-hash seed"""
    import subprocess
    env = dict(os.environ, PYTHONHASHSEED=str(hashseed), PYTHONDONTWRITEBYTECODE='1', PYTHONPATH=core.VERIF)
    p = subprocess.run([core.PY, '-m', 'harness.session_worker', path, fn, mode, '-' if g is None else str(g), '-' if limit is None else str(limit)],
                       cwd=core.VERIF, env=env, capture_output=True, text=True, timeout=300)
    last = p.stdout.strip().split('\n')[-1] if p.stdout.strip() else ''
    try:
        return json.loads(last)
    except ValueError:
        raise core.MachineryError('session worker gave no result: rc=%s %s' % (p.returncode, p.stderr[-400:]))


def process_histories(path, E, rng, tier, work):
    """C15 / C08 as the tool is really used: every session of a quit / --load history is a separate process (separate
    interpreter state, separate string-hash seed); only the save files connect them"""
    from concurrent.futures import ThreadPoolExecutor
    mpos = [k for k, e in enumerate(E, 1) if e[1]]
    others = [k for k, e in enumerate(E, 1) if not e[1]]
    plans = []
    for g1 in mpos:
        plans.append([g1])
        plans.append([g1, rng.randint(1, 3)])
    for g1 in others[:-1]:
        plans.append([g1])
    n = 10 if tier == 'quick' else 60
    if len(plans) > n:
        plans = rng.sample(plans, n)
    seeds = [[rng.randrange(1, 4000000) for _ in range(len(p) + 1)] for p in plans]

    def run(job):
        k, plan, hs = job
        fn = os.path.join(work, 'proc%d_%d%s.sav' % (rng_tag, k, ['', 's', 'a', 'v', '.'][k % 5]))
        sess, total = [], 0
        for si, g in enumerate(plan):
            if total >= len(E):
                break
            sp = saved_prob(fn) if si else None
            r = worker_session(path, fn, 'new' if si == 0 else 'load', g, None, hs[si])
            if r.get('error'):
                core.PENDING_RAISES.append({'error': r['error'], 'via': 'session in its own process', 'plan': plan, 'session': si + 1})
            # the quit took effect when the state was saved after the request (a request made while the LAST pre-terminal is
            # being generated stops nothing: the run completes and the save file still holds an earlier state)
            took = bool(r['quit'] and r['saves'] and r['saves'][-1] >= g)
            sess.append({'lines': r['lines'], 'q': took, 'saved': sp, 'qn': g if took else None})
            total += len(r['lines'])
            if not took:
                break
        if sess[-1]['q']:
            sp = saved_prob(fn)
            r = worker_session(path, fn, 'load', None, None, hs[-1])
            if r.get('error'):
                core.PENDING_RAISES.append({'error': r['error'], 'via': 'session in its own process', 'plan': plan, 'session': 'last'})
            sess.append({'lines': r['lines'], 'q': False, 'saved': sp, 'noload': r.get('noload', False)} if not r.get('noload')
                        else {'lines': [], 'q': False, 'saved': None, 'noload': True})
        return sess, {'quit_after_guesses': plan, 'via': 'one process per session (different string-hash seeds)', 'hash_seeds': hs}
    rng_tag = rng.randrange(10 ** 6)
    with ThreadPoolExecutor(core.NCPU) as ex:
        return list(ex.map(run, [(k, p, hs) for k, (p, hs) in enumerate(zip(plans, seeds))]))


def fresh_cfg(desc_flags=None):
    return session.new_save_config()


def resume_to_end(path, fn, flags=None):
    """plain --load session that is never asked to quit"""
    cfg, info = session.load_save(fn)
    if cfg is None:
        return {'lines': [], 'q': False, 'saved': None, 'noload': True}
    sp = saved_prob(fn)
    pcfg = ptq.load_pcfg(path, save_file=fn, skip_brute=info.get('skip_brute', False), skip_case=info.get('skip_case', False))
    r = session.run_session(pcfg, cfg, fn, load=True)
    return {'lines': r['lines'], 'q': False, 'saved': sp}


def gated_histories(path, E, scripts, rng, n_random, work, PTS=None, itraces=None):
    """single gated session under many schedules, each followed by a resume-to-end session"""
    res = []
    for script in scripts:
        # baseline: main first -> learn the length
        def one(chooser, label):
            fn = os.path.join(work, 'g.sav')
            for f in (fn, fn[:-4] + '.omn'):
                if os.path.exists(f):
                    os.remove(f)
            pcfg = ptq.load_pcfg(path, save_file=fn)
            age = rng.choice([0, 59, 3600, 86400 + 61, 2 * 86400 + 5, 9 * 86400 + 3700])
            run = gated.GatedRun(pcfg, session.new_save_config(), fn, script, age=age)
            r = run.run(chooser)
            if itraces is not None and r['finished'] and not r['error']:
                N = len(PTS)
                itraces.append(itrace(0, E, PTS, r, script, {'sess': 1, 'maxp': N + 1, 'hasomen': False, 'ognum': 0, 'opt': 0, 'opos': 0, 'ng': 0}, fn, 0))
            qn = None
            cnt = 0
            for who, gate, info in r['log']:
                if who == 'M' and gate == 'emit':
                    cnt += 1
                if who == 'K' and gate == 'set_exit':
                    qn = cnt
            sess = [{'lines': r['lines'], 'q': r['q_consumed'], 'saved': None, 'qn': qn, 'noise': r['stdout_noise'] != ''}]
            m = {'script': script, 'schedule': ''.join(r['schedule']), 'label': label, 'error': r['error'], 'session_age_s': age,
                 'stdout_noise': r['stdout_noise'][:80]}
            if len(r['lines']) < len(E) or r['error']:
                sess.append(resume_to_end(path, fn))
            res.append((sess, m))
            return r
        base = one(gated.main_first, 'main first')
        L = len(base['schedule'])
        # keyboard burst at every position p: M runs p steps, then K runs as far as it can
        for p in range(0, L + 1):
            def burst(enabled, step, gates, p=p):
                if step >= p and 'K' in enabled:
                    return 'K'
                return 'M'
            one(burst, 'keyboard burst at step %d' % p)
        for k in range(n_random):
            pk = rng.choice([0.1, 0.3, 0.5, 0.8])
            seed = rng.random()
            r2 = random.Random(seed)

            def rnd(enabled, step, gates, r2=r2, pk=pk):
                if 'K' in enabled and r2.random() < pk:
                    return 'K'
                return 'M'
            one(rnd, 'random pk=%s' % pk)
    return res


def gated_resume_histories(path, E, rng, n_random, work):
    """session 1 is cut inside a Markov level (scripted), session 2 (--load, restores the level) runs gated
    with a keyboard script under many schedules, session 3 resumes to the end"""
    res = []
    mpos = [k for k, e in enumerate(E, 1) if e[1]]
    if not mpos:
        return res
    for script in (['q', 'block'], ['', 'block'], ['', 'q', 'block']):
        g1 = rng.choice(mpos)

        def one(chooser, label):
            fn = os.path.join(work, 'gr.sav')
            for f in (fn, fn[:-4] + '.omn'):
                if os.path.exists(f):
                    os.remove(f)
            pcfg = ptq.load_pcfg(path, save_file=fn)
            r1 = session.run_session(pcfg, session.new_save_config(), fn, quit_at_guess=g1)
            sess = [{'lines': r1['lines'], 'q': r1['quit'], 'saved': None, 'qn': g1 if r1['quit'] else None}]
            if len(r1['lines']) >= len(E):
                return None
            cfg, info = session.load_save(fn)
            sp = saved_prob(fn)
            pcfg2 = ptq.load_pcfg(path, save_file=fn)
            age = rng.choice([0, 59, 3600, 86400 + 61, 2 * 86400 + 5, 9 * 86400 + 3700])
            run = gated.GatedRun(pcfg2, cfg, fn, script, load=True, age=age)
            r = run.run(chooser)
            qn = None
            cnt = 0
            for who, gate, info2 in r['log']:
                if who == 'M' and gate == 'emit':
                    cnt += 1
                if who == 'K' and gate == 'set_exit':
                    qn = cnt
            sess.append({'lines': r['lines'], 'q': r['q_consumed'], 'saved': sp, 'qn': qn, 'noise': r['stdout_noise'] != ''})
            if sum(len(x['lines']) for x in sess) < len(E) or r['error']:
                sess.append(resume_to_end(path, fn))
            res.append((sess, {'script': script, 'schedule': ''.join(r['schedule']), 'label': 'resumed session, ' + label, 'session_age_s': age, 'stdout_noise': r['stdout_noise'][:80],
                               'first_quit_after': g1, 'error': r['error']}))
            return r
        base = one(gated.main_first, 'main first')
        if base is None:
            continue
        L = len(base['schedule'])
        for p in range(0, L + 1):
            def burst(enabled, step, gates, p=p):
                if step >= p and 'K' in enabled:
                    return 'K'
                return 'M'
            one(burst, 'keyboard burst at step %d' % p)
        for k in range(n_random):
            r2 = random.Random(rng.random())
            pk = rng.choice([0.2, 0.5])

            def rnd(enabled, step, gates, r2=r2, pk=pk):
                if 'K' in enabled and r2.random() < pk:
                    return 'K'
                return 'M'
            one(rnd, 'random pk=%s' % pk)
    return res


def cli_histories(rcopy, name, E, tier):
    """the real script under every stdin condition; nobody asks to quit"""
    kinds = ['open', 'eof', 'devnull', 'closed', 'pty', 'enter_enter_open']
    res = []

    def run(kind):
        args = ['-r', name, '-s', 'cli_' + kind]
        if kind == 'pty':
            master, slave = pty.openpty()
            import subprocess
            env = dict(os.environ, PYTHONDONTWRITEBYTECODE='1', PYTHONHASHSEED='0', PYTHONIOENCODING='utf-8')
            p = subprocess.Popen([core.PY, os.path.join(rcopy, 'pcfg_guesser.py')] + args, cwd=rcopy, env=env,
                                 stdin=slave, stdout=subprocess.PIPE, stderr=subprocess.PIPE)
            out = p.stdout.read()
            p.stderr.read()
            try:
                p.wait(timeout=60)
            except Exception:
                p.kill()
            os.close(master)
            os.close(slave)
            return session.stdout_lines(out)
        if kind == 'enter_enter_open':
            out, err, code = session.cli(rcopy, 'pcfg_guesser.py', args, stdin='text', input_text='\n\nh\n')
        else:
            out, err, code = session.cli(rcopy, 'pcfg_guesser.py', args, stdin=kind)
        return session.stdout_lines(out)
    with ThreadPoolExecutor(6) as ex:
        outs = list(ex.map(run, kinds))
    for kind, lines in zip(kinds, outs):
        res.append(([{'lines': lines, 'q': False, 'saved': None}], {'stdin': kind, 'via': 'pcfg_guesser.py subprocess', 'got': len(lines), 'want': len(E)}))
    return res


def quit_histories(path, E, rng, tier, work):
    """C15: quit inside a Markov level at every position j, then later quits, then run to the end"""
    res = []
    # positions (0-based count of guesses emitted before the quit request) inside Markov pre-terminals
    mpos = [k for k, e in enumerate(E, 1) if e[1]]
    others = [k for k, e in enumerate(E, 1) if not e[1]]
    plans = []
    for g1 in mpos:
        plans.append([g1])
        plans.append([g1, 1])                       # quit again right after the first restored guess
        plans.append([g1, rng.randint(1, 4)])
        later = [k - g1 for k in range(g1 + 1, len(E)) if k in others]
        if later:
            plans.append([g1, rng.choice(later)])   # later quit outside OMEN
            plans.append([g1, rng.choice(later), 1])
    if tier == 'quick' and len(plans) > 40:
        plans = rng.sample(plans, 40)
    for pi_, plan in enumerate(plans):
        with_limit = (pi_ % 2 == 1)
        # session names as users choose them, also names that END in one of the letters of the '.sav' suffix
        fn = os.path.join(work, ['q.sav', 'omega.sav', 'canvas.sav', 'rockyou_vs.sav', 'run..sav', 'levels.sav'][pi_ % 6])
        for f in (fn, fn[:-4] + '.omn'):
            if os.path.exists(f):
                os.remove(f)
        sess = []
        total = 0
        for si, g in enumerate(plan):
            if total >= len(E):
                break
            if si == 0:
                pcfg = ptq.load_pcfg(path, save_file=fn)
                r = session.run_session(pcfg, session.new_save_config(), fn, quit_at_guess=g)
                sp = None
            else:
                cfg, info = session.load_save(fn)
                sp = saved_prob(fn)
                pcfg = ptq.load_pcfg(path, save_file=fn)
                # some resumed sessions run under a --limit that is never reached: the bookkeeping of the restored level must
                # not depend on it
                r = session.run_session(pcfg, cfg, fn, load=True, quit_at_guess=g, limit=(10 ** 6 if with_limit else None))
            # a quit "happened" when it stopped the run (the state was saved); a request that arrives after the last
            # guess stops nothing: the run completes, nothing is saved, the history of quit/resume cycles is over
            took = bool(r['quit'] and r['saves'] and r['saves'][-1] >= g)
            sess.append({'lines': r['lines'], 'q': took, 'saved': sp, 'qn': g if took else None})
            total += len(r['lines'])
            if not took:
                break
        if sess[-1]['q']:
            sess.append(resume_to_end(path, fn))
        res.append((sess, {'quit_after_guesses': plan, 'via': 'CrackingSession.run, scripted keyboard thread', 'resumed_with_unreached_limit': with_limit}))
    return res


def generator_resume_traces(tid0, rng, tier, meta):
    """save_session / load_session of the real MarkovCracker at every cut j"""
    out = []
    tid = tid0
    work = core.scratch('omnres')
    for k in range(6 if tier == 'quick' else 60):
        m = omen.random_model(rng)
        d = os.path.join(work, 'm%d' % k)
        omen.write_model(d, m)
        g = omen.load_real(d)
        model, ids = omen.neutral_model(d)
        for lv in range(0, 5):
            full, done, err = omen.drain(g, lv, omen.new_optimizer(), cap=300)
            if err or not full:
                continue
            js = range(1, len(full) + 1) if len(full) <= 12 else sorted(rng.sample(range(1, len(full) + 1), 12))
            for j in js:
                first, rest = omen.resume_split(g, lv, j, work)
                tid += 1
                out.append({'tid': tid, 'kind': 'resume', 'm': model, 'j': j,
                            'full': [omen.ids_of(s, ids) for s in full],
                            'rest': [omen.ids_of(s, ids) for s in rest] if rest is not None else [[-1]]})
                meta[tid] = {'kind': 'MarkovCracker save_session/load_session', 'level': lv, 'j': j, 'n': len(full)}
    return out, tid


def main(pid, tier, seed):
    t0 = time.time()
    rng = random.Random(seed)
    verdict = core.Verdict(pid)
    mc = mc_stage(tier, pid)
    work = core.scratch('sess')
    traces, meta = [], {}
    otraces = []
    tid = 0
    n_rules = 3 if tier == 'quick' else 12
    n_process_histories = [0]
    igroups = []
    rcopy = core.repo_copy('cli') if pid == 'C12' else None
    for k in range(n_rules):
        path = os.path.join(work, 'r%d' % k)
        desc = sessrules.make(rng, path, with_m=True, m_last=(k % 3 == 2), omen_model=(3 if k % 3 == 1 else None), zero_level=(k % 3 != 2))
        if k % 3 == 0:
            # a text file need not end with a newline: the last line of these tables is a line like any other
            for rel in (('Omen', 'omen_keyspace.txt'), ('Omen', 'pcfg_omen_prob.txt'), ('Grammar', 'grammar.txt')):
                fnl = os.path.join(path, *rel)
                with open(fnl, 'rb') as f_:
                    data_ = f_.read()
                if data_.endswith(b'\n'):
                    with open(fnl, 'wb') as f_:
                        f_.write(data_[:-1].rstrip(b'\r'))
        E, PTS = sessrules.expected(path, with_pts=True)
        if pid == 'C12':
            scripts = [['q', 'block'], ['', 'q', 'block'], ['h', 'block'], ['EOF'], ['', 'EOF'], ['x', 'q', 'block'], ['block']]
            if tier == 'quick':
                scripts = scripts[:5] if k == 0 else rng.sample(scripts, 3)
            its = []
            hs = gated_histories(path, E, scripts, rng, 6 if tier == 'quick' else 40, work, PTS, its)
            igroups.append((PTS, its))
            hs += gated_resume_histories(path, E, rng, 3 if tier == 'quick' else 20, work)
            name = 'v%d' % k
            os.symlink(path, os.path.join(rcopy, 'Rules', name))
            hs += cli_histories(rcopy, name, E, tier)
        else:
            hs = quit_histories(path, E, rng, tier, work)
            ph = process_histories(path, E, rng, tier, work)
            n_process_histories[0] += len(ph)
            hs += ph
        for sess, m in hs:
            tid += 1
            traces.append(build_trace(tid, E, sess))
            meta[tid] = dict(m, ruleset=desc, expected_len=len(E), sessions=[len(s['lines']) for s in sess],
                             check=str(m.get('script', m.get('stdin', m.get('quit_after_guesses')))),
                             q=[s['q'] for s in sess])
    # ---- spec -> code: behaviours written by `tlc -simulate` on Session.tla replayed as gate schedules ----
    s2c = None
    if pid == 'C12':
        from . import simreplay
        import collections
        cnt = collections.Counter()
        bad = []
        nb = 0
        for k in range(1 if tier == 'quick' else 4):
            path = os.path.join(work, 'r%d' % k)
            E, PTS = sessrules.expected(path, with_pts=True)
            behs = simreplay.simulate(PTS, 30 if tier == 'quick' else 250, 70, seed * 100 + k + 1, core.scratch('sim'))
            for b in behs:
                res = simreplay.replay(path, E, PTS, b, core.scratch('simw'))
                cnt[res['result']] += 1
                nb += 1
                if res['result'] == 'mismatch':
                    bad.append(res['detail'])
        s2c = {'behaviours_from_tlc_simulate': nb, 'results': dict(cnt), 'mismatches': bad[:3],
               'compared': 'real stream and real save file after the last action of each behaviour'}
    if pid == 'C15':
        otraces, tid = generator_resume_traces(tid, rng, tier, meta)

    verdicts, st = core.validate_traces('TrSession.tla', traces, chunk=300, timeout=600)
    for t in traces:
        v = verdicts[t['tid']]
        if v[0] != 'ACCEPT':
            m = meta[t['tid']]
            failing = list(v[2]) if isinstance(v[2], (tuple, list)) else [v[2]]
            verdict.violation(dict(m, clause='+'.join(failing), failing=failing, session=v[1]),
                              'session %s clauses %s; %s' % (v[1], failing, core.short({k: m[k] for k in m if k != 'ruleset'}, 300)))
    st2 = {}
    if otraces:
        v2, st2 = core.validate_traces('TrOmen.tla', otraces, chunk=300, timeout=600)
        for t in otraces:
            v = v2[t['tid']]
            if v[0] != 'ACCEPT':
                m = meta[t['tid']]
                verdict.violation(dict(m, clause='C15_resumes_at_next_guess'), 'generator resume; %s' % core.short(m))
    def corrupt(t):
        x = t['sess'][0]['x']
        if len(x) < 3:
            return None
        del x[1]                                     # one guess missing in the middle of the stream
        return t
    accepted = [t for t in traces if verdicts[t['tid']][0] == 'ACCEPT']
    selftest = core.binding_selftest('TrSession.tla', accepted, corrupt)
    # ---- I-layer conformance (drift only): gate logs are behaviours of Session.tla ----
    drift = []
    n_itr = 0
    ist = {'states': 0, 'transitions': 0}
    for gi, (PTS, its) in enumerate(igroups):
        if not its:
            continue
        for k, t in enumerate(its, 1):
            t['tid'] = k
        ptf = os.path.join(core.scratch('ptf'), 'pt.json')
        with open(ptf, 'w') as f:
            json.dump([{'kind': p['kind'], 'size': p['size']} for p in PTS], f)
        iv, s1 = core.validate_traces('TrSession_I.tla', its, env={'PT_FILE': ptf}, chunk=150, timeout=600)
        ist['states'] += s1['states']
        ist['transitions'] += s1['transitions']
        n_itr += len(its)
        for t in its:
            if iv[t['tid']][0] != 'ACCEPT':
                drift.append({'ruleset': gi, 'script': t['script'], 'verdict': list(iv[t['tid']]), 'events': len(t['ev'])})
    # anti-vacuity: the scripted quits must really have interrupted sessions that were then resumed
    n_quit = sum(1 for t in traces if any(x['q'] for x in t['sess']))
    n_resumed = sum(1 for t in traces if len(t['sess']) >= 2 and t['sess'][0]['q'] and len(t['sess'][1]['x']) > 0)
    n_markov_cut = sum(1 for t in traces for x in t['sess'][:-1] if x['q'] and x['x'] and t['E'][x['x'][-1][0] - 1]['m']
                       and x['x'][-1][0] < len(t['E']) and t['E'][x['x'][-1][0]]['m'] and t['E'][x['x'][-1][0]]['p'] == t['E'][x['x'][-1][0] - 1]['p'])
    if not n_quit or not n_resumed or (pid == 'C15' and not n_markov_cut):
        raise core.MachineryError('%s: the scripted quits no longer interrupt sessions (quit %d, resumed %d, cut inside a Markov level %d)'
                                  % (pid, n_quit, n_resumed, n_markov_cut))
    rc, n_viol, n_known = verdict.finish()
    alltr = traces + otraces
    distinct = len({json.dumps({k: v for k, v in t.items() if k != 'tid'}, sort_keys=True) for t in alltr})
    s = traces[min(4, len(traces) - 1)]
    cov = {'states': mc['states'], 'transitions': mc['transitions'],
           'traces_validated_against_impl': len(alltr), 'histories_with_one_process_per_session': n_process_histories[0],
           'samples': [{'meta': {k: v for k, v in meta[s['tid']].items() if k != 'ruleset'},
                        'sessions': [[p for p, g in x['x']] for x in s['sess']]}],
           'model_checking': mc, 'evaluations': len(alltr), 'distinct_nontrivial': distinct,
           'anti_vacuity': {'histories_with_a_quit': n_quit, 'histories_resumed': n_resumed, 'quits_inside_a_markov_level': n_markov_cut},
           'rule': 'one trace = one history of real sessions on one ruleset: (C12) a gated two-thread session under one schedule and '
                   'keyboard script plus its resume, or one pcfg_guesser.py subprocess under one stdin condition; (C15) quit inside a Markov '
                   'level at position j followed by further quit/resume cycles, or one MarkovCracker save/load at cut j',
           'rulesets': n_rules, 'trace_validation': {'TrSession': st, 'TrOmen': st2, 'TrSession_I': ist}, 'exhaustive': False,
           'spec_to_code': s2c,
           'binding_selftest': selftest,
           'impl_conformance': {'gate_logs': n_itr, 'result': 'drift' if drift else 'conforms', 'drift_examples': drift[:3], 'n_drift': len(drift)},
           'known_findings_reproduced': n_known, 'violation_histogram': verdict.histogram()}
    core.write_evidence(pid, tier, seed, 'model_checking', cov, time.time() - t0, violations=n_viol,
                        assumptions=['TLC', 'gates installed from outside at input/sleep/status/set_exit (keyboard) and pop/read_alive/read_exit/emit/save (main)',
                                     'a thread counts as dead once its function returned', 'rulesets without probability ties (ties are C08)'])
    return rc
