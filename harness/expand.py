"""Record create_guesses()/--limit behaviour of the real code for TrExpand (C04, C09, C17)."""
import itertools
import json
import os

from . import core, ptq, rulesets

core.use_repo()

CHARMAP = {1: 'a', 2: 'b', 3: 'c', 4: 'd', 9: 'ß', 21: '1', 22: '2', 23: '3', 31: '!', 32: '@'}


def cps(s):
    return [ord(c) for c in s]


def export_catalogue(mc_cfg):
    d = core.scratch('export')
    cfg = os.path.join(d, 'export.cfg')
    keep = [l for l in open(mc_cfg) if not l.strip().startswith(('INVARIANT', 'PROPERTY', 'SPECIFICATION', 'CHECK_DEADLOCK'))]
    with open(cfg, 'w') as f:
        f.write('SPECIFICATION ESpec\n' + ''.join(keep))
    out = os.path.join(d, 'cat.json')
    r = core.tlc(os.path.join(core.SPEC, 'Export_Expand.tla'), cfg, workers=1, timeout=300,
                 env={'OUT_FILE': out}, deadlock=False)
    if not os.path.exists(out):
        raise core.MachineryError('catalogue export failed:\n' + r.out[-2000:])
    with open(out) as f:
        return json.load(f)


def catalogue_ruleset(cat, path):
    """One ruleset whose pre-terminals are exactly the PT space of MC_Expand (plus Markov levels of the
    default OMEN model)."""
    def txt(v):
        return ''.join(CHARMAP[c] for c in v)
    terminals = {}
    for name, key in (('A2', 'A2'), ('C2', 'C2'), ('D1', 'D1'), ('O1', 'O1')):
        groups = sorted(cat[key], key=lambda g: json.dumps(g['v']))
        items = []
        p = 0.5
        for g in groups:
            for v in g['v']:
                items.append((''.join(v) if g['k'] == 'cap' else txt(v), p))
            p /= 2
        if items:
            terminals[name] = items
    units = ['A2', 'D1'] + (['O1'] if cat['O1'] else [])
    base = []
    p = 0.5
    for n in range(1, cat['MaxUnits'] + 1):
        for combo in itertools.product(units, repeat=n):
            base.append((''.join(combo), p))
            p = p / 2 if p > 1e-6 else p
    base.append(('M', 0.001))
    rulesets.write_ruleset(path, terminals, base, omen_prob=[(1, 0.5), (2, 0.25), (3, 0.125)],
                           omen_keyspace=[(1, 1), (2, 1), (3, 1)])
    return path


def rich_ruleset(rng, path):
    """values with spaces, non-ASCII, non-BMP, multi-character upper-casings, adjacent alpha words"""
    words = {1: ['a', 'x', 'é', 'ж', 'ω'], 2: ['ab', 'no', 'ét', 'ßa', 'xy', 'да'],
             3: ['cat', 'dog', 'été', 'stra', 'ωmα'][:4] + ['übe'], 4: ['pass', 'word', 'café', 'stra']}
    terminals = {}
    names = []
    for L in rng.sample([1, 2, 3, 4], rng.randint(1, 3)):
        ws = [w for w in words[L] if len(w) == L]
        rng.shuffle(ws)
        ws = ws[:rng.randint(1, min(4, len(ws)))]
        ps = sorted({rng.choice([0.5, 0.25, 0.125, 0.3, 0.2]) for _ in range(rng.randint(1, 3))}, reverse=True)
        items = [(w, ps[min(i * len(ps) // len(ws), len(ps) - 1)]) for i, w in enumerate(ws)]
        items.sort(key=lambda x: -x[1])
        terminals['A%d' % L] = items
        allmasks = [''.join(m) for m in itertools.product('LU', repeat=L)]
        rng.shuffle(allmasks)
        ms = allmasks[:rng.randint(1, min(4, len(allmasks)))]
        ps = sorted({rng.choice([0.5, 0.25, 0.125, 0.3]) for _ in range(rng.randint(1, 2))}, reverse=True)
        mitems = [(m, ps[min(i * len(ps) // len(ms), len(ps) - 1)]) for i, m in enumerate(ms)]
        mitems.sort(key=lambda x: -x[1])
        terminals['C%d' % L] = mitems
        names.append('A%d' % L)
    pools = {'D': {1: ['1', '7', '٣'], 2: ['12', '99', '07']},
             'O': {1: ['!', ' ', '\U0001F600', '§'], 2: ['!!', ' !', '! ', '  '], 3: [' \U0001F600 ', '#?!']}}
    for cat in 'DO':
        for L in rng.sample(sorted(pools[cat]), rng.randint(1, 2)):
            vs = list(pools[cat][L])
            rng.shuffle(vs)
            vs = vs[:rng.randint(1, len(vs))]
            ps = sorted({rng.choice([0.5, 0.25, 0.4, 0.1]) for _ in range(rng.randint(1, 2))}, reverse=True)
            items = [(v, ps[min(i * len(ps) // len(vs), len(ps) - 1)]) for i, v in enumerate(vs)]
            items.sort(key=lambda x: -x[1])
            terminals['%s%d' % (cat, L)] = items
            names.append('%s%d' % (cat, L))
    structs = []
    for _ in range(rng.randint(2, 5)):
        structs.append(''.join(rng.choice(names) for _ in range(rng.randint(1, 3))))
    structs = list(dict.fromkeys(structs))
    with_m = rng.random() < 0.6
    if with_m:
        structs.insert(rng.randint(0, len(structs)), 'M')
    ps = sorted([rng.choice([0.5, 0.25, 0.125, 0.2, 0.05, 0.3]) for _ in structs], reverse=True)
    base = list(zip(structs, ps))
    omen_prob = rng.choice([[(1, 0.4), (2, 0.2), (3, 0.1)], [(1, 0.26), (2, 0.25), (3, 0.0), (4, 0.0)],
                            [(2, 0.3), (1, 0.1)], [(1, 0.3), (2, 0.3), (3, 0.1)]])
    # OMEN models whose most probable initial n-gram is not at level 0 and whose levels span several lengths
    omen_model = rng.choice([None,
        dict(ngram=2, alphabet=['a', 'b'], ip={'a': 1, 'b': 2}, cp={'aa': 0, 'ab': 1, 'ba': 0, 'bb': 1}, ep={'a': 0, 'b': 0}, ln=[10, 0, 0, 1]),
        dict(ngram=3, alphabet=['a', 'b'], ip={'ab': 2, 'ba': 1, 'aa': 3}, cp={'aba': 0, 'bab': 0, 'baa': 1, 'aab': 0, 'aaa': 1, 'abb': 2},
             ep={'ab': 0}, ln=[10, 10, 0, 1, 0])])
    if with_m and rng.random() < 0.5:
        # a random OMEN model (sparse transitions, dead-end prefixes, gaps between levels) and many levels, each with its own
        # probability: the levels are then expanded one after the other through the grammar's SHARED look-up cache
        from . import omen as _omen
        m = _omen.random_model(rng)
        letters = 'abcd'
        txt = lambda key: ''.join(letters[c - 1] for c in key)
        omen_model = dict(ngram=m['n'], alphabet=list(letters), ln=m['ln'], ip={txt(k): lv for k, lv in m['ip']},
                          cp={txt(k): lv for k, lv in m['cp']}, ep={txt(k): 0 for k, lv in m['ip']})
        lvls = list(range(0, 8))
        omen_prob = [(lv, round(0.3 / (i + 1) ** 2, 6)) for i, lv in enumerate(lvls)]
    rulesets.write_ruleset(path, terminals, base, prince=[(n, 0.5 / (i + 1)) for i, n in enumerate(names)],
                           omen_prob=omen_prob, omen_keyspace=[(l, 1) for l, _ in omen_prob], omen=omen_model)
    return {'terminals': terminals, 'base': base, 'omen_prob': omen_prob}


def dense_omen_ruleset(rng, path):
    """a Markov structure over a DENSE OMEN model (every n-gram present, levels 0..3, lengths up to 7): many levels, each its
    own pre-terminal, expanded one after the other through the grammar's shared look-up cache - the situation in which a
    cached partial parse of one level is looked up again by the next one"""
    n = rng.choice([2, 3, 3])
    letters = 'abc'
    ip = {''.join(k): rng.choice([0, 0, 1, 2]) for k in itertools.product(letters, repeat=n - 1)}
    cp = {''.join(k): rng.choice([0, 1, 1, 2, 3]) for k in itertools.product(letters, repeat=n)}
    maxlen = rng.choice([5, 6, 7])
    ln = [10] * (n - 1) + [rng.choice([0, 0, 1, 2]) for _ in range(maxlen - (n - 1))]
    omen_model = dict(ngram=n, alphabet=list(letters), ip=ip, cp=cp, ep={k: 0 for k in ip}, ln=ln)
    omen_prob = [(lv, round(0.3 / (i + 1) ** 2, 6)) for i, lv in enumerate(range(0, 6))]
    terminals = {'D1': [('1', 0.5), ('2', 0.25)]}
    base = [('M', 0.5), ('D1', 0.3)]
    rulesets.write_ruleset(path, terminals, base, prince=[('D1', 0.5)], omen_prob=omen_prob,
                           omen_keyspace=[(l, 1) for l, _ in omen_prob], omen=omen_model)
    return {'terminals': terminals, 'base': base, 'omen_prob': omen_prob, 'omen': 'dense n=%d maxlen=%d' % (n, maxlen)}


def tie_group_ruleset(rng, path):
    """groups of several equally probable words / masks / digits: the cut of --limit / --size can fall
    anywhere inside a tie group, and the group sits in a non-last slot (alpha word followed by its mask)"""
    words3 = ['cat', 'dog', 'fox', 'owl', 'pig', 'rat', 'bat']
    words4 = ['pass', 'word', 'love', 'blue', 'king']
    rng.shuffle(words3)
    rng.shuffle(words4)
    k3 = rng.randint(3, 6)
    terminals = {
        'A3': [(words3[0], 0.4)] + [(w, 0.1) for w in words3[1:1 + k3]],
        'C3': rng.choice([[('LLL', 0.6), ('ULL', 0.2), ('UUU', 0.2)], [('LLL', 1 / 3), ('ULL', 1 / 3), ('LLU', 1 / 3)], [('LLL', 1.0)]]),
        'A4': [(w, 0.25) for w in words4[:rng.randint(3, 4)]],
        'C4': rng.choice([[('LLLL', 0.5), ('ULLL', 0.5)], [('LLLL', 1.0)]]),
        'D2': [('12', 0.25), ('99', 0.25), ('11', 0.25), ('07', 0.25)],
        'D1': [('1', 0.5), ('2', 0.3), ('3', 0.2)],
    }
    base = [('A3D1', 0.3), ('A3', 0.25), ('A4', 0.2), ('D2', 0.15), ('A4D2', 0.1)]
    rng.shuffle(base)
    base.sort(key=lambda x: -x[1])
    prince = [('A3', 0.5), ('A4', 0.3), ('D2', 0.2)]
    rulesets.write_ruleset(path, terminals, base, prince=prince)
    return {'terminals': terminals, 'base': base, 'prince': prince, 'kind': 'tie groups'}


def dyadic_prince_ruleset(rng, path):
    """power-of-two probabilities: word group x mask group products tie exactly across the two slots of an alpha
    entry (P(A[i]) * P(C[j+1]) == P(A[i+1]) * P(C[j])), the situation the adoption rule's tie-break exists for"""
    words = ['pass', 'word', 'love', 'star', 'moon', 'blue', 'fire', 'king']
    rng.shuffle(words)
    k = rng.randint(3, 5)
    a4 = []
    p = 0.5
    for i in range(k):
        for w in words[i * 1:(i * 1) + 1]:
            a4.append((w, p))
        p /= 2
    masks = ['LLLL', 'ULLL', 'UUUU', 'LLLU']
    c4 = []
    p = 0.5
    for m in masks[:rng.randint(2, 4)]:
        c4.append((m, p))
        p /= 2
    terminals = {'A4': a4, 'C4': c4, 'D2': [('12', 0.5), ('99', 0.25), ('07', 0.25)], 'A2': [('ab', 0.5), ('cd', 0.5)],
                 'C2': [('LL', 0.5), ('UL', 0.25), ('UU', 0.25)]}
    base = [('A4', 0.5), ('A2D2', 0.25), ('D2', 0.25)]
    prince = [('A4', 0.5), ('A2', 0.25), ('D2', 0.25)]
    rulesets.write_ruleset(path, terminals, base, prince=prince)
    return {'terminals': terminals, 'base': base, 'prince': prince, 'kind': 'dyadic prince'}


def near_tie_ruleset(rng, path):
    """values whose probabilities differ, but only by 1e-10 .. 1e-13 (absolutely or relatively): they are DIFFERENT groups;
    a loader that compares with a tolerance would merge them and give the later ones the probability of the first"""
    e = rng.choice([1e-10, 1e-11, 3e-12, 1e-13])
    terminals = {
        'A3': [('cat', 0.5), ('dog', 0.5 - e), ('fox', 0.25), ('owl', 0.25 * (1 - e))],
        'C3': [('LLL', 0.75), ('ULL', 0.125), ('UUU', 0.125 - e)],
        'D2': [('11', 0.25), ('21', 0.25), ('31', 0.25 - e), ('77', 7.5e-10), ('78', 5e-10), ('79', 2.5e-10)],
        'O1': [('!', 0.6), (' ', 0.4)],
    }
    base = [('A3D2', 0.5), ('D2O1', 0.3), ('D2O1A3', 0.2 - e)]
    rulesets.write_ruleset(path, terminals, base, prince=[('A3', 0.5), ('D2', 0.3), ('O1', 0.2)])
    return {'terminals': terminals, 'base': base, 'kind': 'near ties', 'eps': e}


def long_alpha_ruleset(rng, path):
    """alpha words of ten and more letters next to one-letter words: A10 is mangled by the masks of C10, not by those of C1"""
    w10 = rng.sample(['basketball', 'strawberry', 'chocolates', 'university', 'volleyball'], 3)
    w12 = rng.sample(['abracadabras', 'hippopotamus', 'countryside1'[:11] + 'x'], 2)
    up = lambda n: [('L' * n, 0.5), ('U' + 'L' * (n - 1), 0.25), ('U' * n, 0.125), ('L' * (n - 1) + 'U', 0.125)]
    terminals = {'A1': [('a', 0.5), ('b', 0.25), ('x', 0.25)], 'C1': [('L', 0.75), ('U', 0.25)],
                 'A10': [(w10[0], 0.5), (w10[1], 0.25), (w10[2], 0.25)], 'C10': up(10),
                 'A12': [(w12[0], 0.6), (w12[1], 0.4)], 'C12': up(12)[:rng.randint(2, 4)],
                 'D1': [('1', 0.6), ('7', 0.4)]}
    base = [('A10D1', 0.4), ('A1D1', 0.3), ('A12', 0.2), ('A1A10', 0.1)]
    prince = [('A10', 0.4), ('A1', 0.3), ('A12', 0.2), ('D1', 0.1)]
    rulesets.write_ruleset(path, terminals, base, prince=prince)
    return {'terminals': terminals, 'base': base, 'prince': prince, 'kind': 'two-digit alpha lengths'}


# --------------------------------------------------------------------------
def all_pts(pcfg):
    """every pre-terminal of the loaded ruleset, enumerated independently of the queue"""
    for b in pcfg.base:
        reps = b['replacements']
        for idx in itertools.product(*[range(len(pcfg.grammar[t])) for t in reps]):
            yield b, [(t, i) for t, i in zip(reps, idx)]


def grammar_derives(pcfg, pw):
    """does the loaded (non-Markov) grammar spell pw?  Decided by matching pw against every base structure, segment by segment
    (lengths are fixed by the labels, context strings tried one by one) - used where the language is too large to enumerate"""
    def values(t):
        return [v for g in pcfg.grammar.get(t, []) for v in g['values']]

    def masked(w, m):
        return ''.join(c.upper() if k == 'U' else c for c, k in zip(w, m))

    def match(reps, j, i):
        if j == len(reps):
            return i == len(pw)
        t = reps[j]
        cat = t[0]
        if cat == 'A':
            n = int(t[1:])
            piece = pw[i:i + n]
            if len(piece) != n or j + 1 >= len(reps) or reps[j + 1][0] != 'C':
                return False
            masks = values(reps[j + 1])
            if not any(len(w) == n and any(masked(w, m) == piece for m in masks) for w in set(values(t))):
                return False
            return match(reps, j + 2, i + n)
        if cat in 'DOK':
            n = int(t[1:])
            piece = pw[i:i + n]
            return len(piece) == n and piece in values(t) and match(reps, j + 1, i + n)
        if cat in 'YX':
            return any(pw.startswith(v, i) and match(reps, j + 1, i + len(v)) for v in set(values(t)) if v)
        return False
    for b in pcfg.base:
        reps = b['replacements']
        if any(t[0] in 'MEW' for t in reps):
            continue
        if match(reps, 0, 0):
            return True
    return False


def grammar_derivation_probs(pcfg, pw, cap=2000):
    """probabilities of the pre-terminals of the loaded (non-Markov) grammar that spell pw, found by matching pw against every
    base structure segment by segment (no enumeration of the language): product of the base-structure probability and of the
    probability of every group that holds the matched value, multiplied left to right as the guesser does"""
    index = getattr(pcfg, '_verif_value_index', None)
    if index is None:
        index = {}
        for t, groups in pcfg.grammar.items():
            d = {}
            for g in groups:
                for v in g['values']:
                    d.setdefault(v, []).append(g['prob'])
            index[t] = d
        pcfg._verif_value_index = index
    out = []

    def masked(w, m):
        return ''.join(c.upper() if k == 'U' else c for c, k in zip(w, m))

    def match(reps, j, i, p):
        if len(out) >= cap:
            return
        if j == len(reps):
            if i == len(pw):
                out.append(p)
            return
        t = reps[j]
        cat = t[0]
        if cat == 'A':
            n = int(t[1:])
            piece = pw[i:i + n]
            if len(piece) != n or j + 1 >= len(reps) or reps[j + 1][0] != 'C':
                return
            low = piece.lower()
            cands = {low} if len(low) == n else set()
            for w in cands:
                for pa in index.get(t, {}).get(w, []):
                    for m, pms in index.get(reps[j + 1], {}).items():
                        if masked(w, m) == piece:
                            for pm in pms:
                                match(reps, j + 2, i + n, p * pa * pm)
            return
        if cat in 'DOK':
            n = int(t[1:])
            piece = pw[i:i + n]
            if len(piece) != n:
                return
            for pv in index.get(t, {}).get(piece, []):
                match(reps, j + 1, i + n, p * pv)
            return
        if cat in 'YX':
            for v, pvs in index.get(t, {}).items():
                if v and pw.startswith(v, i):
                    for pv in pvs:
                        match(reps, j + 1, i + len(v), p * pv)
            return
    for b in pcfg.base:
        reps = b['replacements']
        if any(t[0] in 'MEW' for t in reps):
            continue
        # cheap length filter: the fixed-length labels must not exceed the string
        fixed = sum(int(t[1:]) for t in reps if t[0] in 'ADOK') + 4 * sum(1 for t in reps if t[0] == 'Y')
        if fixed > len(pw):
            continue
        match(reps, 0, 0, b['prob'])
    return out


def expand_real(pcfg, pt, limit=None):
    lines = []
    pcfg.print_guess = lines.append
    pcfg.should_exit = False
    try:
        n = pcfg.create_guesses(pt, limit=limit)
    except Exception as ex:         # the code under test raised while expanding a pre-terminal of a loaded ruleset
        if len(core.PENDING_RAISES) < 20:
            core.PENDING_RAISES.append({'error': repr(ex), 'via': 'create_guesses', 'pt': [list(x) for x in pt], 'limit': limit,
                                        'lines_written': len(lines)})
        n = -1
    return lines, n


def file_prob_ranks(path, pcfg, encoding='utf-8'):
    """terminal type -> records (value, float) of its file in file order, read by the neutral reader"""
    cache = {}

    def of(t):
        if t in cache:
            return cache[t]
        cat = t[0]
        if cat == 'M':
            fn = os.path.join(path, 'Omen', 'pcfg_omen_prob.txt')
        else:
            fn = os.path.join(path, rulesets.DIR_OF[cat], t[1:] + '.txt')
        recs = []
        if os.path.exists(fn):
            recs = [(v, float(p)) for v, p in rulesets.neutral_value_prob(fn, encoding)]
        cache[t] = recs
        return recs
    return of


def pt_groups(pcfg, pt, path, fileprobs, synth_caps=False):
    groups = []
    floats = set()
    for t, i in pt:
        g = pcfg.grammar[t][i]
        kind = 'cap' if t[0] == 'C' else ('markov' if t[0] == 'M' else 'plain')
        fr = []
        if not (kind == 'cap' and synth_caps):
            recs = fileprobs(t)
            # the loader forms groups from consecutive records: group i owns the records after those
            # of groups 0..i-1.  If the loader dropped or reordered records (C07's business) fall back
            # to looking the value up.
            off = sum(len(x['values']) for x in pcfg.grammar[t][:i])
            mine = recs[off:off + len(g['values'])]
            if [v for v, _ in mine] == list(g['values']):
                fr = [p for _, p in mine]
            else:
                by = {}
                for v, p in recs:
                    by.setdefault(v, p)
                fr = [by.get(v, float('nan')) for v in g['values']]
        groups.append({'k': kind, 'vals': list(g['values']), 'gp': g['prob'], 'fp': fr, 't': t, 'i': i})
        floats.add(g['prob'])
        floats.update(x for x in fr if x == x)
    order = {v: r + 1 for r, v in enumerate(sorted(floats))}
    out = []
    for g in groups:
        if g['k'] == 'cap':
            v = [list(m) for m in g['vals']]
        else:
            v = [cps(s) for s in g['vals']]
        out.append({'k': g['k'], 'v': v, 'gr': order[g['gp']], 'fr': [order.get(x, 0) for x in g['fp']],
                    't': g['t'], 'i': g['i']})
    return out


def up_table(strings):
    chars = set()
    for s in strings:
        chars.update(s)
    return [[ord(c), [ord(x) for x in c.upper()]] for c in sorted(chars)]
