"""OMEN models: write / read (neutral reader) / drive the real generator, trainer tables and scorer."""
import contextlib
import io
import json
import os
import random

from . import core, rulesets

core.use_repo()

LETTERS = 'abcdefghijklmnopqrstuvwxyz'


# --------------------------------------------------------------------------
# abstract model <-> files.  Abstract model: {n, ln:[levels], ip:[[key ids], level], cp: likewise}
# --------------------------------------------------------------------------
def write_model(d, m, alphabet=None, encoding='utf-8', order=None, final_newline=True):
    na = max([max(k) for k, _ in m['ip']] + [max(k) for k, _ in m['cp']] + [1]) if (m['ip'] or m['cp']) else 1
    alphabet = alphabet or list(LETTERS[:na])
    txt = lambda key: ''.join(alphabet[c - 1] for c in key)
    omen = dict(ngram=m['n'], alphabet=alphabet, ln=m['ln'],
                ip={txt(k): lvl for k, lvl in m['ip']}, cp={txt(k): lvl for k, lvl in m['cp']},
                ep={txt(k): 0 for k, lvl in m['ip']})
    rulesets.write_omen(d, omen, encoding, order=order, final_newline=final_newline)
    return alphabet


def neutral_model(d, encoding=None):
    """the model as the *files* state it, read by the harness's own reader; characters become ids by
    their position in alphabet.txt (others get ids after the alphabet)"""
    import configparser
    cp = configparser.ConfigParser()
    cp.read(os.path.join(d, 'config.txt'))
    n = cp.getint('training_settings', 'ngram')
    enc = encoding or cp.get('training_settings', 'encoding')
    alphabet = rulesets.neutral_read(os.path.join(d, 'alphabet.txt'), enc)
    ids = {}
    for a in alphabet:
        ids.setdefault(a, len(ids) + 1)

    def key(s):
        out = []
        for ch in s:
            if ch not in ids:
                ids[ch] = len(ids) + 1
            out.append(ids[ch])
        return out
    m = {'n': n, 'ln': [int(x) for x in rulesets.neutral_read(os.path.join(d, 'LN.level'), 'ascii')], 'ip': [], 'cp': []}
    for name in ('ip', 'cp'):
        seen = {}
        for ln in rulesets.neutral_read(os.path.join(d, name.upper() + '.level'), enc):
            lvl, k = ln.split('\t', 1)
            seen[k] = int(lvl)          # a later line for the same key overrides (dict semantics of the loaders)
        m[name] = [[key(k), v] for k, v in seen.items()]
    return m, ids


def ids_of(s, ids):
    out = []
    for ch in s:
        if ch not in ids:
            ids[ch] = len(ids) + 1
        out.append(ids[ch])
    return out


# --------------------------------------------------------------------------
# real generator
# --------------------------------------------------------------------------
def load_real(d):
    from lib_guesser.omen.input_file_io import load_rules
    g = {}
    buf = io.StringIO()
    with contextlib.redirect_stdout(buf), contextlib.redirect_stderr(buf):
        ok = load_rules(d, g)
    if not ok:
        raise core.MachineryError('load_rules failed: ' + buf.getvalue()[-500:])
    return g


def drain(g, level, optimizer, cap=200000):
    """-> (strings, done, error)"""
    from lib_guesser.omen.markov_cracker import MarkovCracker
    out = []
    buf = io.StringIO()
    try:
        with contextlib.redirect_stderr(buf):
            mc = MarkovCracker(g, level, optimizer)
            while True:
                s = mc.next_guess()
                if s is None:
                    return out, True, None
                out.append(s)
                if len(out) > cap:
                    return out, False, 'cap'
    except Exception as ex:
        return out, False, repr(ex)


def new_optimizer(max_length=4):
    from lib_guesser.omen.optimizer import Optimizer
    return Optimizer(max_length=max_length)


def resume_split(g, level, j, tmpdir):
    """emit j strings, save_session, load into a fresh MarkovCracker with a fresh optimizer, drain"""
    from lib_guesser.omen.markov_cracker import MarkovCracker
    mc = MarkovCracker(g, level, new_optimizer())
    first = []
    for _ in range(j):
        first.append(mc.next_guess())
    fn = os.path.join(tmpdir, 'x.omn')
    mc.save_session(fn)
    rest = []
    try:
        mc2 = MarkovCracker(g, 1, new_optimizer())
        mc2.load_session(fn, {'pt': [['M', 1, 1]]})
        while True:
            s = mc2.next_guess()
            if s is None:
                break
            rest.append(s)
            if len(rest) > 100000:
                break
    except Exception:
        return first, None          # the code raised while resuming: the remainder was not produced
    return first, rest


# --------------------------------------------------------------------------
# random models beyond the model-checked bound
# --------------------------------------------------------------------------
def random_model(rng, boundary=None):
    n = rng.choice([2, 2, 3, 3, 4, 5])
    na = rng.choice([2, 2, 3, 4])
    maxlen = n + rng.randint(0, 3)
    lv = lambda: rng.choice([0, 0, 1, 1, 2, 3, 5, 10])
    ln = [lv() for _ in range(maxlen)]
    import itertools
    ipkeys = list(itertools.product(range(1, na + 1), repeat=n - 1))
    cpkeys = list(itertools.product(range(1, na + 1), repeat=n))
    dens = rng.choice([0.3, 0.6, 1.0])
    ip = [[list(k), lv()] for k in ipkeys if rng.random() < max(dens, 0.5)]
    if not ip:
        ip = [[list(ipkeys[0]), 0]]
    cp = [[list(k), lv()] for k in cpkeys if rng.random() < dens]
    if boundary == 'ln10':
        ln = [10] * maxlen
    elif boundary == 'ip10':
        ip = [[k, 10] for k, _ in ip]
    elif boundary == 'ln0':
        ln = [0] * maxlen
    return {'n': n, 'ln': ln, 'ip': ip, 'cp': cp}


def max_useful_level(m):
    return min(12, max(m['ln']) + max([l for _, l in m['ip']] + [0]) + 3)


# --------------------------------------------------------------------------
# I-layer conformance: step the real generator and expose its internal state (OmenEnum.tla)
# --------------------------------------------------------------------------
def ordered_model(d):
    """the lists in file order, as the generator's loader builds them; characters -> ids by alphabet position"""
    import configparser
    cp = configparser.ConfigParser()
    cp.read(os.path.join(d, 'config.txt'))
    n = cp.getint('training_settings', 'ngram')
    enc = cp.get('training_settings', 'encoding')
    ids = {}
    for a in rulesets.neutral_read(os.path.join(d, 'alphabet.txt'), enc):
        ids.setdefault(a, len(ids) + 1)
    lnl = [[] for _ in range(11)]
    for L, line in enumerate(rulesets.neutral_read(os.path.join(d, 'LN.level'), 'ascii'), 1):
        if L >= n:
            lnl[int(line)].append(L - (n - 1))
    ipl = [[] for _ in range(11)]
    for line in rulesets.neutral_read(os.path.join(d, 'IP.level'), enc):
        lvl, k = line.split('\t', 1)
        ipl[int(lvl)].append(ids_of(k, ids))
    cpl = {}
    for line in rulesets.neutral_read(os.path.join(d, 'CP.level'), enc):
        lvl, k = line.split('\t', 1)
        cpl.setdefault(k[:-1], {}).setdefault(int(lvl), []).append(ids_of(k[-1], ids)[0])
    cpl_list = [[ids_of(p, ids), [[lv, chars] for lv, chars in sorted(bylvl.items())]] for p, bylvl in cpl.items()]
    return {'n': n, 'lnl': lnl, 'ipl': ipl, 'cpl': cpl_list}, ids


def memo_snapshot(opt, ids):
    out = []
    for length, table in enumerate(opt.tmto_lookup):
        for ip, bytgt in table.items():
            for tgt, val in bytgt.items():
                v = [] if val is None else [[ids_of(e[0], ids), e[1], e[2] + 1] for e in val]
                out.append([length, ids_of(ip, ids), tgt, v])
    return out


UNOBSERVABLE = [0]


def step_trace(tid, d, levels, cap=400):
    """one shared Optimizer, the given levels in order; every next_guess() with the internal state after it.
    The cursors, the parse tree and the memo table are implementation details: when they cannot be read the way the
    I-layer model names them (a refactored generator), the step trace is skipped and counted - the P-layer verdict
    (drained levels = LevelSet) does not depend on it."""
    try:
        return _step_trace(tid, d, levels, cap)
    except core.MachineryError:
        raise
    except Exception:
        UNOBSERVABLE[0] += 1
        return None


def _step_trace(tid, d, levels, cap=400):
    from lib_guesser.omen.markov_cracker import MarkovCracker
    g = load_real(d)
    om, ids = ordered_model(d)
    opt = new_optimizer()
    rounds = []
    for lv in levels:
        mc = MarkovCracker(g, lv, opt)
        steps = []
        while True:
            s = mc.next_guess()
            rec = {'g': ids_of(s, ids) if s is not None else [], 'pt': [], 'len': [0, 0], 'ip': [0, 0]}
            if s is not None:
                rec['pt'] = [[ids_of(e[0], ids), e[1], e[2] + 1] for e in mc.cur_guess.parse_tree]
                rec['len'] = [mc.cur_len[0], mc.cur_len[1] + 1]
                rec['ip'] = [mc.cur_ip[0], mc.cur_ip[1] + 1]
            steps.append(rec)
            if s is None or len(steps) > cap:
                break
        if steps and steps[-1]['g']:
            return None         # capped: not a complete level
        rounds.append({'level': lv, 'steps': steps, 'memo': memo_snapshot(opt, ids)})
    return {'tid': tid, 'om': om, 'rounds': rounds}
