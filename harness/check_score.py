"""C13: a non-zero score is a promise the guesser keeps.  Verdict: spec/TrScore.tla."""
import contextlib
import io
import json
import os
import random
import time

from . import core, train, ptq, expand, segment, check_train


def cluster(values, tol=1e-9):
    rk = {}
    r = 0
    prev = None
    for v in sorted(values):
        if prev is None or v > prev * (1 + tol):
            r += 1
        rk[v] = r
        prev = v
    return rk


def perturb(rng, s):
    out = set()
    if not s:
        return out
    i = rng.randrange(len(s))
    c = s[i]
    out.add(s[:i] + c.swapcase() + s[i + 1:])
    out.add(s[:i] + rng.choice('0123456789') + s[i + 1:])
    out.add(s[:i] + rng.choice('!@# ') + s[i + 1:])
    out.add(s + rng.choice('19!'))
    out.add(s[1:])
    out.add(s.upper())
    out.add(s.capitalize())
    return {x for x in out if x and len(x) <= 21}


TIER_WORDS = [['love', 'baby', 'wolf', 'frog', 'bird', 'fish', 'tree', 'moon', 'star'],
              ['monkey', 'dragon', 'summer', 'winter', 'silver', 'golden', 'purple', 'orange', 'yellow']]


def tier_list(rng):
    """a list on which the SCORER's multi-word detector is active: it only registers the alpha strings above the five
    lowest frequency tiers of their length, so one length needs at least seven tiers for two words to be registered"""
    words = list(rng.choice(TIER_WORDS))
    rng.shuffle(words)
    pws = []
    n = rng.randint(12, 16)
    for w in words:
        pws += [w] * n
        n -= rng.randint(1, 2)
        if n < 1:
            n = 1
    top = words[:3]
    cap = lambda w: rng.choice([w, w.capitalize(), w.upper(), w[:-1] + w[-1].upper()])
    for _ in range(rng.randint(5, 9)):
        shape = rng.choice(['ww', 'ww', 'www', 'wdw', 'wwd', 'wsw'])
        a, b, c = (rng.choice(top) for _ in range(3))
        if shape == 'ww':
            pws.append(a + cap(b))
        elif shape == 'www':
            pws.append(cap(a) + b + cap(c))
        elif shape == 'wdw':
            pws.append(a + rng.choice('179') + cap(b))
        elif shape == 'wwd':
            pws.append(cap(a) + cap(b) + rng.choice(['1', '12']))
        else:
            pws.append(a + '!' + cap(b))
    pws.append(top[0] + top[1])
    rng.shuffle(pws)
    return pws


def make_scorer(d, limit=0):
    from lib_scorer.pcfg_password_scorer import PCFGPasswordScorer
    from lib_scorer.grammar_io import load_grammar
    sc = PCFGPasswordScorer(limit=limit)
    with contextlib.redirect_stdout(io.StringIO()), contextlib.redirect_stderr(io.StringIO()):
        if not load_grammar(sc, d):
            return None
        sc.create_multiword_detector()
        sc.create_omen_scorer(d, 9)
    return sc


N_RULE_ONLY = [0]


def rule_says_website(s):
    """the documented rule, restated: a top-level domain of the list occurs in the lower-cased string and is not followed by a
    letter or a dot (a later stage can only cut a section shorter, which turns 'followed by' into 'ends the section')"""
    from lib_trainer.detection_rules.tld_list import get_tld_list
    w = s.lower()
    if len(w) != len(s) or '.' not in w:
        return False
    for tld in get_tld_list():
        i = w.find(tld)
        while i != -1:
            j = i + len(tld)
            if j == len(w) or not (w[j].isalpha() or w[j] == '.'):
                return True
            i = w.find(tld, j)
    return False


def rule_says_email(s):
    """the documented rule, restated: an '@' stands somewhere before the end of the first occurrence of a top-level domain"""
    from lib_trainer.detection_rules.tld_list import get_tld_list
    w = s.lower()
    if len(w) != len(s) or '.' not in w or '@' not in w:
        return False
    for tld in get_tld_list():
        i = w.find(tld)
        if i != -1 and '@' in w[:i + len(tld)]:
            return True
    return False


def detect_ew(s):
    r = detect_ew_real(s)
    if not r:
        # the restated rules find an address / a website where the detectors under test reported nothing.  The rules speak
        # about the sections the keyboard-walk stage leaves unlabelled (a walk such as '9ol.' can swallow the dot of '.com'),
        # so they are applied to those sections, as the pipeline does
        from lib_trainer.detection_rules.keyboard_walk import detect_keyboard_walk
        try:
            sl, _, _ = detect_keyboard_walk(s)
            parts = [t for t, lab in sl if lab is None]
        except Exception:
            parts = []
        if any(rule_says_email(t) for t in parts):
            N_RULE_ONLY[0] += 1
            return 'e'
        if any(rule_says_website(t) for t in parts):
            N_RULE_ONLY[0] += 1
            return 'w'
    return r


def detect_ew_real(s):
    from lib_trainer.detection_rules.keyboard_walk import detect_keyboard_walk
    from lib_trainer.detection_rules.email_detection import email_detection
    from lib_trainer.detection_rules.website_detection import website_detection
    sl, _, _ = detect_keyboard_walk(s)
    em, _ = email_detection(sl)
    if em:
        return 'e'
    urls, _, _ = website_detection(sl)
    if urls:
        return 'w'
    return ''


def main(pid, tier, seed):
    t0 = time.time()
    rng = random.Random(seed)
    verdict = core.Verdict(pid)
    # abstract composition scorer o guesser (Scorer.tla): must hold with the open finding excluded and fail without it
    mod = os.path.join(core.SPEC, 'Scorer.tla')
    r1 = core.tlc_must_pass(mod, os.path.join(core.SPEC, 'MC_Scorer.cfg'), 'Scorer composition', timeout=600)
    r2 = core.tlc(mod, os.path.join(core.SPEC, 'MC_Scorer_open.cfg'), timeout=600)
    mc = {'cfg': 'MC_Scorer.cfg', 'states': r1.distinct, 'transitions': r1.generated,
          'open_finding_in_model': {'cfg': 'MC_Scorer_open.cfg', 'violated': r2.violated}}
    traces, meta = [], {}
    tid = 0
    n_lists = 8 if tier == 'quick' else 250
    n_cands = 0
    n_limit, n_limit_diff = [0], [0]
    n_cli, n_cli_diff, rcopy = [0], [0], [None]
    from . import session
    from . import lists as _lists
    specials = sorted(_lists.special_lists().items())
    for k in range(n_lists + len(specials)):
        pool = rng.choice(list(check_train.POOLS))
        pws = check_train.make_list(rng, pool, with_ew=(pool == 'ascii'))
        if k >= n_lists:
            sname, (pws, sopt) = specials[k - n_lists]
            pws, pool = list(pws), 'special:' + sname
        if k % 4 == 1 and k < n_lists:
            pws += ['ẞtraße', 'İstanbul', 'ǅur'] * 2       # letters whose case mapping is not invertible
        if k % 4 == 2 and k < n_lists:
            pool = 'tiers'
            pws = tier_list(rng)
        if k % 4 == 3 and k < n_lists:
            pws = check_train.tie_list(rng, pool)
        res = train.train(pws, ngram=rng.choice([2, 3]), alphabet_size=100, coverage=rng.choice([0.6, 0.5, 1]))
        if not res['ok']:
            continue
        d = res['dir']
        sc = make_scorer(d)
        if sc is None:
            tid += 1
            traces.append({'tid': tid, 'cands': [{'s': 1, 'r': 1, 'cat': 'x', 'dr': [], 'ew': '', 'again': 1}]})
            meta[tid] = {'error': 'scorer could not load the ruleset', 'passwords': pws[:8]}
            continue
        pcfg = ptq.load_pcfg(d)
        lang = {}
        total = 0
        # the guesser's language as the guesser produces it: the real priority queue run to exhaustion (a pre-terminal the
        # queue never pops is never emitted), each popped pre-terminal expanded by the real create_guesses
        hist = ptq.run_history(pcfg, [], with_queue=False, max_pops=60000)
        for it, _ in hist['sessions'][0]['ev']:
            pt = it['pt']
            if pt[0][0] == 'M':
                continue
            lines, n = expand.expand_real(pcfg, pt)
            p = it['base_prob']
            for t, i in pt:
                p *= pcfg.grammar[t][i]['prob']
            for ln in lines:
                lang.setdefault(ln, []).append(p)
            total += n
            if total > 300000:
                break
        cands = set(pws)
        glist = list(lang)
        cands.update(rng.sample(glist, min(len(glist), 150)))
        for s in list(cands)[:120]:
            cands |= perturb(rng, s)
        cands.update(['zzzz', 'Xq7!', 'correcthorse', ' ', 'a@b.com', 'www.x.org', 'pass@word.com1', 'www.comics.org', 'my.community.net', 'the.network.de1', '1qaz@gmail.com', '1qaz@mail.com.br', '2wsx@mail.com.br', 'a@1qaz.com', 'bob@mail.com.br'])
        if pool == 'tiers':
            ws = sorted({w.lower() for w in pws if w.isalpha() and len(w) <= 6})
            for _ in range(60):
                a, b = rng.choice(ws), rng.choice(ws)
                cands.update([a + b, a + b.capitalize(), a.upper() + b, a + b.upper(), a.capitalize() + b.capitalize()])
        cands = sorted(x for x in cands if x)
        first = {s: sc.parse(s) for s in cands}
        order2 = list(cands)
        rng.shuffle(order2)
        second = {s: sc.parse(s) for s in order2}
        # ... and by a second scorer with a classification cut-off (--limit) above 0: the cut-off decides the category, never
        # the probability ("the score depends only on the string and the ruleset")
        lim = rng.choice([1e-9, 1e-6, 1e-3, 0.05, 0.5])
        sc2 = make_scorer(d, limit=lim)
        if sc2 is not None:
            for s in order2:
                r3 = sc2.parse(s)
                if r3[2] != first[s][2] and second[s][2] == first[s][2]:
                    second[s] = r3
                    n_limit_diff[0] += 1
            n_limit[0] += len(order2)
        # ... and by the command line tool (password_scorer.py -i file -o file [-l cut-off]): what it writes for a string is the
        # same probability
        if k < (2 if tier == 'quick' else 25):
            if rcopy[0] is None:
                rcopy[0] = core.repo_copy('scli')
            name = 's%d' % k
            os.symlink(d, os.path.join(rcopy[0], 'Rules', name))
            usable = [s for s in cands if s.strip('\r\n') == s and not s.startswith('$HEX[') and '\t' not in s
                      and all(ord(c) >= 0x20 and c not in '\x85\u2028\u2029' for c in s)
                      and s.encode('utf-8', 'ignore').decode('utf-8') == s]
            inp = os.path.join(rcopy[0], 'in_%d.txt' % k)
            outp = os.path.join(rcopy[0], 'out_%d.txt' % k)
            with open(inp, 'wb') as f:
                for s in usable:
                    f.write(s.encode('utf-8') + b'\n')
            args = ['-r', name, '-i', inp, '-o', outp] + ([] if k % 2 == 0 else ['-l', repr(lim)])
            session.cli(rcopy[0], 'password_scorer.py', args, stdin='devnull', timeout=900)
            got = {}
            if os.path.exists(outp):
                with open(outp, 'rb') as f:
                    for ln in f.read().decode('utf-8', 'surrogateescape').split('\n'):
                        parts = ln.rsplit('\t', 3)
                        if len(parts) == 4:
                            try:
                                got[parts[0]] = (parts[0], parts[1], float(parts[2]), parts[3])
                            except ValueError:
                                pass
            for s in usable:
                r4 = got.get(s, (s, 'missing', -1.0, ''))          # a line the tool did not write: no score at all
                n_cli[0] += 1
                if r4[2] != first[s][2] and second[s][2] == first[s][2]:
                    second[s] = r4
                    n_cli_diff[0] += 1
        floats = set()
        for s in cands:
            floats.add(first[s][2])
            floats.add(second[s][2])
            floats.update(lang.get(s, []))
        floats.discard(0)
        rk = cluster(floats)
        ids = {}
        ident = lambda s: ids.setdefault(s, len(ids) + 1)
        cl = []
        for s in cands:
            r = first[s]
            cl.append({'s': ident(s), 'r': rk.get(r[2], 0) if r[2] else 0, 'cat': r[1],
                       'dr': sorted({rk[p] for p in lang.get(s, []) if p in rk}), 'ew': detect_ew(s),
                       'again': rk.get(second[s][2], 0) if second[s][2] else 0})
        tid += 1
        traces.append({'tid': tid, 'cands': cl})
        meta[tid] = {'pool': pool, 'passwords': pws[:10], 'candidates': len(cands), 'language': len(lang), 'cand_list': cands}
        n_cands += len(cands)

    # ---- the shipped rulesets (hundreds of thousands of terminals, languages far too large to enumerate): the guesser's side of
    # ---- the promise is decided by MATCHING the string against the loaded grammar (expand.grammar_derivation_probs) instead
    # ---- of looking it up in an enumerated language
    shipped = {}
    for rname in ('Default', 'Russian'):
        d = os.path.join(core.REPO, 'Rules', rname)
        if not os.path.isdir(os.path.join(d, 'Grammar')) or (tier == 'quick' and rname != 'Default'):
            continue
        sc = make_scorer(d)
        pcfg = ptq.load_pcfg(d)
        if sc is None:
            continue
        # candidates: what the guesser emits first, the most and the least probable words of a few lengths glued together,
        # perturbations of all of these, fixed strings
        hist = ptq.run_history(pcfg, [], with_queue=False, max_pops=60 if tier == 'quick' else 600)
        cands = set()
        for it, _ in hist['sessions'][0]['ev']:
            if it['pt'][0][0] == 'M':
                continue
            lines, n = expand.expand_real(pcfg, it['pt'], limit=3)
            cands.update(lines[:3])
        words = []
        for n_ in (3, 4, 5, 6, 8):
            gs = pcfg.grammar.get('A%d' % n_, [])
            vals = [v for g in gs for v in g['values']]
            words += vals[:6] + vals[-3:]
        for _ in range(40 if tier == 'quick' else 1500):
            a, b = rng.choice(words), rng.choice(words)
            cands.update([a + b, a.capitalize() + b, a + b.upper(), a + rng.choice(['1', '12', '123', '2019', '!', '#1', '1qaz']) + b, a + b + '1'])
        for s_ in list(cands)[:60 if tier == 'quick' else 1500]:
            cands |= perturb(rng, s_)
        cands.update(['zzzzqqq', 'P@ssw0rd', 'Mr.Bean', 'test1234test', 'a@b.com', 'www.x.org', ' ', 'qwerty123!', 'ILoveYou', 'пароль1', 'Наташа'])
        cands = sorted(x for x in cands if x and len(x) <= 30)
        if tier == 'quick':
            cands = cands[:1] + rng.sample(cands[1:], min(len(cands) - 1, 420))
        elif len(cands) > 3000:
            cands = cands[:1] + rng.sample(cands[1:], 2999)
        first = {s_: sc.parse(s_) for s_ in cands}
        second = {s_: sc.parse(s_) for s_ in reversed(cands)}
        drv = {s_: expand.grammar_derivation_probs(pcfg, s_) for s_ in cands}
        floats = set()
        for s_ in cands:
            floats.update([first[s_][2], second[s_][2]])
            floats.update(drv[s_])
        floats.discard(0)
        rk = cluster(floats)
        ids = {}
        ident = lambda s_: ids.setdefault(s_, len(ids) + 1)
        cl = [{'s': ident(s_), 'r': rk.get(first[s_][2], 0) if first[s_][2] else 0, 'cat': first[s_][1],
               'dr': sorted({rk[p_] for p_ in drv[s_] if p_ in rk}), 'ew': detect_ew(s_),
               'again': rk.get(second[s_][2], 0) if second[s_][2] else 0} for s_ in cands]
        tid += 1
        traces.append({'tid': tid, 'cands': cl})
        meta[tid] = {'pool': 'shipped ruleset ' + rname, 'passwords': ['(shipped ruleset %s)' % rname], 'candidates': len(cands), 'cand_list': cands,
                     'language': 'not enumerated: derivations found by matching against the loaded grammar'}
        n_cands += len(cands)
        shipped[rname] = {'candidates': len(cands), 'non_zero_scores': sum(1 for s_ in cands if first[s_][2]),
                          'base_structures': len(pcfg.base)}

    # ---- composition model (Compose.tla): trainer -> guesser / scorer on every small training list, exact rationals ----
    from . import compose
    comp = compose.stage(tier, random.Random(seed * 104729 + 5), verdict, pid)

    verdicts, st = core.validate_traces('TrScore.tla', traces, chunk=4, timeout=900)
    for t in traces:
        v = verdicts[t['tid']]
        if v[0] != 'ACCEPT':
            m = meta[t['tid']]
            for clause, idxs in v[1]:
              for idx in (dict(idxs).get('set', []) if isinstance(idxs, tuple) else idxs.get('set', [])):
                s = m.get('cand_list', ['?'])[idx - 1] if m.get('cand_list') else '?'
                verdict.violation({'clause': clause, 'string': s, 'passwords': m.get('passwords'), 'check': clause,
                                   'noninvertible_case': not check_train.invertible_case(s)},
                                  'clause %s; string %r' % (clause, s))
    def corrupt(t):
        k = next((i for i, c in enumerate(t['cands']) if c['r'] != 0 and c['dr']), None)
        if k is None:
            return None
        t['cands'][k]['dr'] = []                     # a non-zero score for a string the guesser never emits
        return t
    accepted = [t for t in traces if verdicts[t['tid']][0] == 'ACCEPT']
    selftest = core.binding_selftest('TrScore.tla', accepted, corrupt, n=3)
    verdict.matcher('C13-F15-noninvertible-case-letters',
                    lambda w: w.get('clause') == 'C13_nonzero_score_is_a_guess_of_that_probability' and w.get('noninvertible_case'))
    rc, n_viol, n_known = verdict.finish()
    s = traces[0]
    cov = {'evaluations': n_cands, 'distinct_nontrivial': sum(1 for t in traces for c in t['cands'] if c['r'] != 0),
           'traces_validated_against_impl': len(traces),
           'composition': comp,
           'rule': 'one evaluation = one candidate string scored by the real scorer on a real trained ruleset and looked up in the real '
                   'guesser language table; non-trivial = non-zero score; candidates = training passwords, guesser output, one-edit '
                   'perturbations, unrelated strings, e-mail / website strings',
           'samples': [{'passwords': meta[s['tid']].get('passwords'), 'candidates': meta[s['tid']].get('cand_list', [])[:12]}],
           'trainings': len(traces), 'websites_by_the_restated_rule_that_the_detectors_did_not_report': N_RULE_ONLY[0], 'shipped_rulesets_scored_against_grammar_matching': shipped, 'rescored_with_a_cutoff_above_0': n_limit[0], 'scored_again_by_the_command_line_tool': n_cli[0], 'of_which_differing_from_the_library': n_cli_diff[0], 'of_which_differing': n_limit_diff[0], 'trace_validation': st, 'binding_selftest': selftest, 'model_checking': mc, 'states': mc['states'], 'transitions': mc['transitions'], 'exhaustive': False,
           'known_findings_reproduced': n_known, 'violation_histogram': verdict.histogram()}
    core.write_evidence(pid, tier, seed, 'model_checking', cov, time.time() - t0, violations=n_viol,
                        assumptions=['TLC compares ranks; floats clustered within relative 1e-9', 'e-mail / website detection recomputed with the detectors',
                                     'guesser language enumerated exhaustively (non-Markov pre-terminals) for small trained rulesets'])
    return rc
