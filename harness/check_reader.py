"""C19: equivalent encodings of a training list train the same grammar.
Model: spec/Reader.tla; verdict: spec/TrLine.tla (kinds seq / same)."""
import contextlib
import io
import hashlib
import itertools
import json
import os
import random
import re
import time

from . import core, train

core.use_repo()

CLASSES = ['a', 'sp', 'c', 'L', 't']


def mc_stage():
    mod = os.path.join(core.SPEC, 'MC_Reader.tla')
    r = core.tlc_must_pass(mod, os.path.join(core.SPEC, 'MC_Reader.cfg'), 'Reader', timeout=1200)
    return {'cfg': 'MC_Reader.cfg', 'states': r.distinct, 'transitions': r.generated, 'wall_s': round(r.wall, 1)}


def concretise(rng, s, encoding):
    out = []
    for k in s:
        if k == 'a':
            pool = 'abcXYZ019!$'
            if encoding == 'utf-8':
                pool += 'éжΩ😀'
            elif encoding == 'iso-8859-1':
                pool += 'éß'
            elif encoding == 'cp1251':
                pool += 'жЯ'
            out.append(rng.choice(pool))
        elif k == 'sp':
            out.append(' ')
        elif k == 'c':
            out.append(rng.choice('\x01\x08\x1f\x00'))
        elif k == 'L':
            pool = ['\x0b', '\x0c', '\x1c', '\x1d', '\x1e']
            if encoding == 'utf-8':
                pool += ['\x85', ' ', ' ']
            elif encoding == 'iso-8859-1':
                pool += ['\x85']
            out.append(rng.choice(pool))
        elif k == 't':
            out.append('\t')
    return ''.join(out)


def valid(abs_s):
    return len(abs_s) > 0 and all(k in ('a', 'sp') for k in abs_s)


def write_variants(d, recs, encoding, rng):
    """recs: [(n, concrete str or bytes-undecodable marker, abstract)], returns {variant: (path, prefixcount)}"""
    os.makedirs(d, exist_ok=True)
    enc = lambda s: s.encode(encoding)
    files = {}
    plain = b''.join((enc(s) + b'\n') * n for n, s, _ in recs)
    crlf = b''.join((enc(s) + b'\r\n') * n for n, s, _ in recs)
    hexed = b''.join((b'$HEX[' + enc(s).hex().encode() + b']\n') * n for n, s, _ in recs)
    count = b''.join(b'%7d ' % n + enc(s) + b'\n' for n, s, _ in recs)
    counthex = b''.join(b'%d $HEX[' % n + enc(s).hex().encode() + b']\n' for n, s, _ in recs)
    mixed = b''.join(((enc(s) + b'\n') * n) if i % 2 == 0 else ((b'$HEX[' + enc(s).hex().encode() + b']\n') * n) for i, (n, s, _) in enumerate(recs))
    for name, data, pc in (('plain', plain, False), ('crlf', crlf, False), ('hex', hexed, False), ('count', count, True),
                           ('counthex', counthex, True), ('mixed', mixed, False)):
        p = os.path.join(d, name + '.txt')
        with open(p, 'wb') as f:
            f.write(data)
        files[name] = (p, pc)
    return files


def read_all(path, encoding, prefixcount):
    from lib_trainer.trainer_file_input import TrainerFileInput
    tfi = TrainerFileInput(path, encoding, prefixcount)
    seq = []
    try:
        for pw in tfi.read_password():
            seq.append(pw)
    except Exception as ex:
        # unusable lines are "skipped and counted without aborting training": a reader that raises has aborted it.  The sequence
        # read so far is returned (it is not the meant one) and the raise is reported on its own
        if len(core.PENDING_RAISES) < 10:
            core.PENDING_RAISES.append({'error': repr(ex), 'clause': 'C19_reading_never_aborts', 'via': 'TrainerFileInput.read_password',
                                        'file': os.path.basename(path), 'encoding': encoding, 'prefixcount': prefixcount, 'read_before_the_raise': len(seq)})
        seq.append('\x00reader raised')
    return seq, tfi.num_passwords, tfi.num_encoding_errors


def cps(s):
    return [ord(c) for c in s]


def digest_ruleset(d):
    out = []
    for root, dirs, files in os.walk(d):
        for fn in sorted(files):
            full = os.path.join(root, fn)
            rel = os.path.relpath(full, d)
            with open(full, 'rb') as f:
                data = f.read()
            if rel == 'config.ini':
                data = b'\n'.join(l for l in data.split(b'\n') if not l.startswith((b'uuid', b'filename')))
            out.append((rel, hashlib.sha256(data).hexdigest()))
    return sorted(out)


def main(pid, tier, seed):
    t0 = time.time()
    rng = random.Random(seed)
    verdict = core.Verdict(pid)
    mc = mc_stage()
    work = core.scratch('reader')
    traces, meta = [], {}
    tid = 0
    strs = [()]
    for k in range(1, 4):
        strs += list(itertools.product(CLASSES, repeat=k))
    files = [[(n, s)] for s in strs for n in (1, 2)]                      # every single-record file of the model space
    for _ in range(150 if tier == 'quick' else 12000):                     # random multi-record files
        files.append([(rng.randint(1, 3), rng.choice(strs)) for _ in range(rng.randint(2, 4))])
    # extra kinds outside the class alphabet: undecodable bytes, $HEX[ look-alikes
    n_files = 0
    for fi, f in enumerate(files):
        encoding = rng.choice(['utf-8', 'utf-8', 'iso-8859-1', 'cp1251'])
        recs = [(n, concretise(rng, s, encoding), s) for n, s in f]
        d = os.path.join(work, 'f%d' % fi)
        variants = write_variants(d, recs, encoding, rng)
        meant = []
        for n, s, a in recs:
            if valid(a):
                meant += [s] * n
        got = {}
        counts_ok = True
        for name, (p, pc) in variants.items():
            seq, npw, nerr = read_all(p, encoding, pc)
            got[name] = seq
            if npw != len(seq) or nerr != 0:
                counts_ok = False
        p1 = got['plain']
        p2, _, _ = read_all(variants['plain'][0], encoding, False)
        p3, _, _ = read_all(variants['plain'][0], encoding, False)
        tid += 1
        traces.append({'tid': tid, 'kind': 'seq', 'plain': [cps(x) for x in p1],
                       'variants': [[cps(x) for x in got[k]] for k in ('crlf', 'hex', 'count', 'counthex', 'mixed')],
                       'pass1': [cps(x) for x in p1], 'pass2': [cps(x) for x in p2], 'pass3': [cps(x) for x in p3],
                       'meant': [cps(x) for x in meant], 'counts_ok': counts_ok})
        meta[tid] = {'encoding': encoding, 'records': [[n, repr(s), ''.join(a)] for n, s, a in recs],
                     'yielded': {k: [repr(x) for x in v][:8] for k, v in got.items()}, 'meant': [repr(x) for x in meant][:8]}
        n_files += 1
    # undecodable bytes and look-alikes (utf-8)
    specials = [
        ([b'good1', b'bad\xff\xfe', b'good2'], ['good1', 'good2'], 1),
        ([b'$HEX[zz]', b'ok'], ['ok'], 1),
        ([b'$HEX[41]', b'A'], ['A', 'A'], 0),
        ([b'$HEX[c3]', b'ok'], ['ok'], 1),
        ([b'', b'  ', b'x'], ['  ', 'x'], 0),
    ]
    for lines, want, nerr_want in specials:
        d = os.path.join(work, 's%d' % tid)
        os.makedirs(d, exist_ok=True)
        p = os.path.join(d, 'plain.txt')
        with open(p, 'wb') as f:
            f.write(b''.join(l + b'\n' for l in lines))
        seq, npw, nerr = read_all(p, 'utf-8', False)
        p2, _, _ = read_all(p, 'utf-8', False)
        tid += 1
        traces.append({'tid': tid, 'kind': 'seq', 'plain': [cps(x) for x in seq], 'variants': [[cps(x) for x in want]],
                       'pass1': [cps(x) for x in seq], 'pass2': [cps(x) for x in p2], 'pass3': [cps(x) for x in p2],
                       'meant': [cps(x) for x in want], 'counts_ok': npw == len(seq) and nerr == nerr_want})
        meta[tid] = {'encoding': 'utf-8', 'records': [repr(l) for l in lines], 'yielded': {'plain': [repr(x) for x in seq]},
                     'meant': want, 'num_encoding_errors': nerr}

    # whole trainings: plain vs hex vs count-prefixed lists give identical rulesets
    n_same = 3 if tier == 'quick' else 90
    for k in range(n_same):
        encoding = ['iso-8859-1', 'utf-8', 'cp1251'][k % 3]         # a non-UTF-8 encoding in every run
        base = ['password', 'pass word', ' lead', 'trail ', 'abc123', 'qwerty12', '12345', 'a!b', '$HEX[look', 'x' * 5]
        recs = [(rng.randint(1, 6), rng.choice(base), None) for _ in range(rng.randint(4, 9))]
        recs += [(2, 'skip\x0cme', None), (1, 'tab\there', None)]
        recs += [(2, 'été' if encoding != 'cp1251' else 'пароль', None), (1, 'Zoë9' if encoding != 'cp1251' else 'Любовь1', None)]   # non-ASCII in every list
        # repeated passwords the Markov side cannot rate (shorter than the n-gram size 3, longer than 21 characters, a character
        # outside the alphabet): every occurrence counts the same in every spelling of the list
        recs += [(3, 'ab', None), (2, 'y' * 25, None), (3, 'q~' + 'z' * 4, None)]
        if k % 3 == 1:
            recs += [(2, 'correcthorse', None), (1, 'BatteryStaple9', None)]
        if encoding == 'utf-8':
            # a password that BEGINS with U+FEFF (the bytes of a byte-order mark) is a password like any other, in every spelling;
            # it is never the first line of the file
            recs += [(3, '\ufeffsummer12', None), (1, 'a\ufeffb', None)]
        d = os.path.join(work, 't%d' % k)
        variants = write_variants(d, recs, encoding, rng)
        digs = {}
        meant_t = []
        for n_, s_, _ in recs:
            if not any(c in s_ for c in '\x0c\t'):
                meant_t += [s_] * n_
        # every third list is trained with a pre-training word list for the multi-word detector (--multiword): that file is one plain
        # word per line in every spelling of the training list; the list then holds passwords only the pre-trained words split
        mwf = None
        if k % 3 == 1:
            mwf = os.path.join(d, 'words.txt')
            with open(mwf, 'wb') as f_:
                for w_ in ('correct', 'horse', 'battery', 'staple'):
                    f_.write(w_.encode(encoding) + b'\n')
        for name in ('plain', 'hex', 'count', 'mixed'):
            p, pc = variants[name]
            res = train.train(training_file=p, encoding=encoding, prefixcount=pc, ngram=3, coverage=0.6, multiword=mwf or False)
            digs[name] = digest_ruleset(res['dir']) if res['ok'] else [('FAILED', res['error'] or 'x')]
            # the three passes of the REAL run_trainer (each constructs its own reader): same sequence, the meant one
            passes = [fi_.verif_yielded for fi_ in res['captured'].get('file_inputs', [])
                      if getattr(fi_, 'filename', None) != mwf]          # (the reader of the --multiword word list is not a pass)
            if res['ok']:
                while len(passes) < 3:
                    passes.append([])
                tid += 1
                traces.append({'tid': tid, 'kind': 'seq', 'plain': [cps(x) for x in passes[0]], 'variants': [[cps(x) for x in meant_t]],
                               'pass1': [cps(x) for x in passes[0]], 'pass2': [cps(x) for x in passes[1]], 'pass3': [cps(x) for x in passes[2]],
                               'meant': [cps(x) for x in meant_t], 'counts_ok': True})
                meta[tid] = {'encoding': encoding, 'records': 'the three passes of run_trainer on the %s file' % name,
                             'yielded': {'pass%d' % (i_ + 1): len(x) for i_, x in enumerate(passes)}, 'meant': len(meant_t)}
        ids = {}
        I = lambda x: ids.setdefault(x, len(ids) + 1)
        for name in ('hex', 'count', 'mixed'):
            tid += 1
            traces.append({'tid': tid, 'kind': 'same', 'a': [[I(a), I(b)] for a, b in digs['plain']],
                           'b': [[I(a), I(b)] for a, b in digs[name]]})
            diff = [a for (a, b), (c, e) in zip(digs['plain'], digs[name]) if (a, b) != (c, e)]
            meta[tid] = {'encoding': encoding, 'compare': 'plain vs ' + name, 'differing_files': diff[:6],
                         'records': [[n, repr(s)] for n, s, _ in recs]}

    # the encoding trainer.py autodetects when --encoding is not given (detect_file_encoding) is part of how a list is read:
    # it must not depend on whether the passwords are written plainly or as $HEX[...], with LF or CRLF line ends
    n_detect = 0
    from lib_trainer.trainer_file_input import detect_file_encoding
    RU = ['пароль', 'любовь', 'привет', 'наташа', 'максим', 'марина', 'солнышко', 'андрей', 'кристина', 'сергей', 'зайка', '123йцукен',
          'йцукен', 'люблю', 'самсунг', 'настя', 'алексей', 'екатерина', 'спартак', 'дмитрий', 'Любовь1', 'ПАРОЛЬ', 'мойпароль',
          'компьютер', 'лена1990', 'виктория', 'светлана', 'анастасия', 'александр', 'владимир']
    FR = ['été', 'Zoë9', 'crème', 'garçon', 'français', 'señor', 'niño', 'mañana', 'über', 'straße', 'größe', 'café', 'naïve', 'élève',
          'àbientôt', 'çava', 'façade', 'jalapeño', 'piñata', 'Køge', 'smörgåsbord', 'Ærø', 'fjäll']
    ASC = ['password', 'abc123', 'qwerty12', '12345', 'letmein', 'dragon', 'monkey1']
    for enc_, words in (('cp1251', RU), ('koi8-r', RU), ('iso-8859-1', FR), ('utf-8', RU)) + (('utf-8', FR),):
        for trial in range(2 if tier == 'quick' else 8):
            pws = rng.sample(words, 20) + rng.sample(ASC, 4)
            rng.shuffle(pws)
            found = {}
            for le_name, le in (('LF', b'\n'), ('CRLF', b'\r\n')):
                for var in ('plain', 'hex for the non-ASCII passwords', 'hex for all'):
                    p = os.path.join(work, 'detect.txt')
                    with open(p, 'wb') as f:
                        for w in pws:
                            b = w.encode(enc_)
                            if var == 'hex for all' or (var != 'plain' and not w.isascii()):
                                b = b'$HEX[' + b.hex().encode() + b']'
                            f.write(b + le)
                    lst = []
                    with contextlib.redirect_stdout(io.StringIO()):
                        ok_ = detect_file_encoding(p, lst)
                    found[le_name + ', ' + var] = str(lst[0]) if ok_ and lst else 'FAILED'
            n_detect += len(found)
            ids = {}
            I = lambda x: ids.setdefault(x, len(ids) + 1)
            for name, val in found.items():
                if name == 'LF, plain':
                    continue
                tid += 1
                traces.append({'tid': tid, 'kind': 'same', 'a': [[1, I(found['LF, plain'])]], 'b': [[1, I(val)]]})
                meta[tid] = {'encoding': enc_, 'compare': 'autodetected encoding: plain LF file vs ' + name, 'detected': found,
                             'records': pws[:6]}

    verdicts, st = core.validate_traces('TrLine.tla', traces, chunk=400, timeout=600)
    for t in traces:
        v = verdicts[t['tid']]
        if v[0] != 'ACCEPT':
            m = meta[t['tid']]
            failing = list(v[1]) if isinstance(v[1], (tuple, list)) else [v[1]]
            verdict.violation(dict(m, clause='+'.join(failing), failing=failing), 'clauses %s; %s' % (failing, core.short(m, 400)))
    def corrupt(t):
        if t['kind'] == 'seq' and t['plain']:
            t['variants'][0] = t['variants'][0] + [t['plain'][0]]      # one encoding yields an extra password
            return t
        return None
    accepted = [t for t in traces if verdicts[t['tid']][0] == 'ACCEPT']
    selftest = core.binding_selftest('TrLine.tla', accepted, corrupt)
    rc, n_viol, n_known = verdict.finish()
    distinct = len({json.dumps({k: v for k, v in t.items() if k != 'tid'}, sort_keys=True) for t in traces
                    if t['kind'] == 'same' or len(t['plain']) + len(t['meant']) > 0})
    s = traces[min(40, len(traces) - 1)]
    cov = {'autodetections_compared': n_detect, 'states': mc['states'], 'transitions': mc['transitions'],
           'traces_validated_against_impl': len(traces),
           'samples': [{'meta': meta[s['tid']]}], 'model_checking': mc,
           'evaluations': len(traces), 'distinct_nontrivial': distinct,
           'rule': 'seq trace = one abstract file of the model space instantiated in one encoding and written as plain / CRLF / $HEX[] / '
                   'count-prefixed / count+hex / mixed files, each read by the real TrainerFileInput (three passes); same trace = two whole '
                   'real trainings whose rulesets are compared file by file',
           'single_record_files_of_model_space': len(strs) * 2, 'files': n_files, 'trainings_compared': n_same * 3,
           'trace_validation': st, 'exhaustive': False, 'known_findings_reproduced': n_known, 'binding_selftest': selftest,
           'violation_histogram': verdict.histogram()}
    core.write_evidence(pid, tier, seed, 'model_checking', cov, time.time() - t0, violations=n_viol,
                        assumptions=['TLC', 'the meaning of a record (valid / skipped) is fixed by construction of the generated files',
                                     'control characters = C0, NEL, LS, PS (DEL and C1 controls are not generated)',
                                     'directory digests computed in Python (config.ini without uuid / filename lines)'])
    return rc
