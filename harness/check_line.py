"""C07: a saved ruleset means the same thing to every tool that loads it.
Model: spec/LineFormat.tla with constants measured from the real functions; verdict: spec/TrLine.tla."""
import contextlib
import io
import json
import os
import random
import time

from . import core, linefmt, rulesets, train, ptq, omen

ENCODINGS = ['utf-8', 'iso-8859-1', 'cp1251', 'utf-16']


def tla_set(xs):
    return '{' + ', '.join('"%s"' % x for x in sorted(xs)) + '}'


def mc_stage(meas, tier):
    d = core.scratch('lfmc')
    cfg = os.path.join(d, 'MC_LineFormat.cfg')
    with open(cfg, 'w') as f:
        f.write('SPECIFICATION Spec\nCONSTANTS\n')
        f.write('  Classes = %s\n' % tla_set(linefmt.CLASSES))
        for k in ('Rejects', 'SplitsG', 'SplitsS', 'SplitsOG', 'SplitsOS', 'StripsOG', 'StripsOS'):
            f.write('  %s = %s\n' % (k, tla_set(meas[k])))
        f.write('  MaxLen = %d\nINVARIANT RoundTrip\nCHECK_DEADLOCK FALSE\n' % (2 if tier == 'quick' else 3))
    r = core.tlc(os.path.join(core.SPEC, 'LineFormat.tla'), cfg, timeout=900)
    if r.rc == 124 or (not r.ok and not r.violated):
        raise core.MachineryError('LineFormat model checking failed:\n' + r.out[-1500:])
    cex = None
    if r.violated:
        import re
        m = re.search(r'/\\ v = (<<.*?>>)', r.out)
        cex = m.group(1) if m else 'see log'
    return {'cfg': 'generated from measurements', 'states': max(r.distinct, 1), 'transitions': max(r.generated, 1),
            'measured_constants': {k: sorted(v) for k, v in meas.items() if k != 'refine'},
            'partition_refinement_needed': meas['refine'],
            'model_prediction': 'round trip holds for every accepted value' if not r.violated else
            'VIOLATION predicted: accepted value %s is not returned unchanged' % cex}


def chars_for(meas, members, rng, encoding):
    """characters of accepted classes that `encoding` can represent"""
    out = []
    for k in linefmt.CLASSES:
        if k in meas['Rejects']:
            continue
        pool = members[k]
        picks = pool if len(pool) <= 20 else [pool[0], pool[-1]] + rng.sample(pool, 6)
        if k == 'ORD':
            picks = [ord(c) for c in 'éßñЯжωΩ'] + picks[:4]
        if k == 'NONBMP':
            picks = [0x1F600, 0x1D4B3] + picks[:3]
        for cp in picks:
            try:
                chr(cp).encode(encoding)
                out.append((k, chr(cp)))
            except UnicodeEncodeError:
                pass
    return out


def training_list(chars, rng):
    pws = ['password', 'password', 'password1', '123456', '123456', 'abc123', 'letmein!', 'qwerty']
    for k, c in chars:
        pws += ['ab' + c + '12', c + 'abc', 'abc' + c, c + c, '12' + c, c, 'ab' + c + 'cd' + c]
        if c.isalpha():
            pws += [c * 3, 'x' + c + 'y', (c * 2).upper() if (c * 2).upper() != c * 2 else c * 4]
    rng.shuffle(pws)
    return pws + pws[:5]


def cps(s):
    return [ord(c) for c in s]


def sfloat(x):
    """total: a record whose probability field is not a number gets -1 (such a file is already broken)"""
    try:
        return float(x)
    except ValueError:
        return -1.0


def file_traces(tid0, res, encoding, meta, desc, max_records=None):
    """for every rule file: neutral view vs each real loader's view"""
    from lib_scorer.pcfg_password_scorer import PCFGPasswordScorer
    from lib_scorer import grammar_io as sgio
    d = res['dir']
    traces = []
    tid = tid0
    floats = set()
    views = []   # (reader, file label, ok, want[(value, float)], got[(value, float)])

    # --- guesser loader
    ok_g = True
    try:
        pcfg = ptq.load_pcfg(d)
    except Exception:
        ok_g, pcfg = False, None
    sections = [('Alpha', 'A'), ('Capitalization', 'C'), ('Digits', 'D'), ('Other', 'O'), ('Keyboard', 'K'), ('Years', 'Y'), ('Context', 'X')]
    # --- scorer loader
    sc = PCFGPasswordScorer()
    with contextlib.redirect_stdout(io.StringIO()), contextlib.redirect_stderr(io.StringIO()):
        ok_s = bool(sgio.load_grammar(sc, d))
    smap = {'A': sc.count_alpha, 'C': sc.count_alpha_masks, 'D': sc.count_digits, 'O': sc.count_other, 'K': sc.count_keyboard}
    for folder, cat in sections:
        fd = os.path.join(d, folder)
        for fn in sorted(os.listdir(fd)) if os.path.isdir(fd) else []:
            idx = fn.split('.')[0]
            want = [(v, sfloat(p)) for v, p in rulesets.neutral_value_prob(os.path.join(fd, fn), encoding)]
            name = cat + idx
            got_g = []
            if ok_g and name in pcfg.grammar:
                for g in pcfg.grammar[name]:
                    got_g += [(v, g['prob']) for v in g['values']]
            views.append(('G', folder + '/' + fn, ok_g and name in (pcfg.grammar if pcfg else {}), want, got_g))
            if cat in smap:
                c = smap[cat].get(int(idx)) if ok_s else None
                views.append(('S', folder + '/' + fn, c is not None, want, list(c.items()) if c is not None else []))
            elif cat == 'Y':
                views.append(('S', folder + '/' + fn, ok_s, want, list(sc.count_years.items())))
            elif cat == 'X':
                views.append(('S', folder + '/' + fn, ok_s, want, list(sc.count_context_sensitive.items())))
    # --- the Markov levels and their probabilities (Omen/pcfg_omen_prob.txt -> grammar['M'])
    mp = os.path.join(d, 'Omen', 'pcfg_omen_prob.txt')
    if os.path.exists(mp):
        want = [(v, sfloat(p)) for v, p in rulesets.neutral_value_prob(mp, encoding)]
        got_g = []
        if ok_g and 'M' in pcfg.grammar:
            for g in pcfg.grammar['M']:
                got_g += [(v, g['prob']) for v in g['values']]
        views.append(('G', 'Omen/pcfg_omen_prob.txt', ok_g and 'M' in (pcfg.grammar if pcfg else {}), want, got_g))
    # --- what the trainer MEANT to write (its in-memory counters) against what is on disk (neutral reading): values only
    pp = res['captured'].get('pcfg_parser')
    if pp is not None:
        mem = {'Alpha': pp.count_alpha, 'Capitalization': pp.count_alpha_masks, 'Digits': pp.count_digits, 'Other': pp.count_other,
               'Keyboard': pp.count_keyboard}
        for folder, ctrs in mem.items():
            for n_, c_ in ctrs.items():
                path_ = os.path.join(d, folder, '%d.txt' % n_)
                disk = [(v, 0.0) for v, _ in rulesets.neutral_value_prob(path_, encoding)] if os.path.exists(path_) else []
                views.append(('T', folder + '/%d.txt (trainer memory vs disk)' % n_, os.path.exists(path_), [(v, 0.0) for v in c_], disk))
        for folder, c_ in (('Years', pp.count_years), ('Context', pp.count_context_sensitive)):
            path_ = os.path.join(d, folder, '1.txt')
            disk = [(v, 0.0) for v, _ in rulesets.neutral_value_prob(path_, encoding)] if os.path.exists(path_) else []
            views.append(('T', folder + '/1.txt (trainer memory vs disk)', os.path.exists(path_) or not c_, [(v, 0.0) for v in c_], disk))
    # --- OMEN
    od = os.path.join(d, 'Omen')
    try:
        g = omen.load_real(od)
        ok_og = True
    except Exception:
        ok_og, g = False, None
    ok_os, osc = linefmt.read_omen_scorer(d, encoding)
    for fn, key in (('IP.level', 'ip'), ('CP.level', 'cp')):
        want = []
        for ln in rulesets.neutral_read(os.path.join(od, fn), encoding):
            lvl, k = ln.split('\t', 1) if '\t' in ln else ('-1', ln)
            want.append((k, sfloat(lvl)))
        got = []
        if ok_og:
            if key == 'ip':
                for lvl, lst in g['ip'].items():
                    got += [(k, float(lvl)) for k in lst]
            else:
                for pre, bylvl in g['cp'].items():
                    for lvl, lst in bylvl.items():
                        got += [(pre + c, float(lvl)) for c in lst]
        views.append(('OG', 'Omen/' + fn, ok_og, want, got))
        got = [(k, float(v)) for k, v in (getattr(osc, key).items() if ok_os else [])]
        views.append(('OS', 'Omen/' + fn, ok_os, want, got))
    # LN.level: line L holds the level of total length L.  The guesser keeps the lengths that can be generated (L >= n-gram
    # size) as numbers of transitions L - (n - 1); the scorer keeps every line (index = length)
    ln_lines = rulesets.neutral_read(os.path.join(od, 'LN.level'), 'utf-8')
    n_ = None
    try:
        import configparser as _cp
        c_ = _cp.ConfigParser()
        c_.read(os.path.join(od, 'config.txt'))
        n_ = c_.getint('training_settings', 'ngram')
    except Exception:
        n_ = None
    if n_:
        want = [(str(L), sfloat(lv)) for L, lv in enumerate(ln_lines, 1) if L >= n_]
        got = []
        if ok_og:
            for lvl, lens in g['ln'].items():
                got += [(str(k + n_ - 1), float(lvl)) for k in lens]
        views.append(('OG', 'Omen/LN.level', ok_og, want, got))
        want_s = [(str(L), sfloat(lv)) for L, lv in enumerate(ln_lines, 1)]
        got_s = [(str(L), sfloat(lv)) for L, lv in enumerate(osc.ln[1:], 1)] if ok_os else []
        views.append(('OS', 'Omen/LN.level', ok_os, want_s, got_s))
    want = [(a, 0.0) for a in rulesets.neutral_read(os.path.join(od, 'alphabet.txt'), encoding)]
    views.append(('OG', 'Omen/alphabet.txt', ok_og, want, [(a, 0.0) for a in (g['alphabet'] if ok_og else [])]))
    for _, _, _, want, got in views:
        floats.update(p for _, p in want)
        floats.update(p for _, p in got)
    rk = {v: i + 1 for i, v in enumerate(sorted(floats))}
    for reader, label, ok, want, got in views:
        if max_records is not None and len(want) > max_records:
            continue            # (a file of a shipped ruleset too long for one TLC trace)
        if len(got) > 3 * len(want) + 2000:
            got = got[:3 * len(want) + 2000]      # a loader that returns far more than the file holds: already wrong, keep the trace small
        tid += 1
        traces.append({'tid': tid, 'kind': 'file', 'reader': reader, 'ok': bool(ok),
                       'want': [[cps(v), rk[p]] for v, p in want], 'got': [[cps(v), rk[p]] for v, p in got]})
        lost = [v for v, p in want if (v, p) not in set(got)]
        meta[tid] = dict(desc, reader=reader, file=label, lost=[repr(x) for x in lost[:5]],
                         lost_chars=sorted({'U+%04X' % ord(c) for v in lost for c in v if ord(c) > 0x7e or ord(c) < 0x21})[:8])
    # --- config lists
    import configparser
    cp = configparser.ConfigParser()
    cp.read(os.path.join(d, 'config.ini'))
    listed, present = [], []
    for sec in cp.sections():
        if cp.has_option(sec, 'filenames') and cp.has_option(sec, 'directory'):
            folder = cp.get(sec, 'directory')
            for fn in json.loads(cp.get(sec, 'filenames')):
                listed.append(cps(folder + '/' + fn))
            fd = os.path.join(d, folder)
            for fn in sorted(os.listdir(fd)) if os.path.isdir(fd) else []:
                if folder == 'Grammar' and fn == 'raw_grammar.txt':
                    continue
                present.append(cps(folder + '/' + fn))
    tid += 1
    traces.append({'tid': tid, 'kind': 'config', 'listed': listed, 'present': present})
    meta[tid] = dict(desc, check='config.ini file lists')
    return traces, tid


def main(pid, tier, seed):
    t0 = time.time()
    n_tiny = [0]
    rng = random.Random(seed)
    verdict = core.Verdict(pid)
    members = linefmt.class_table()
    reps = linefmt.representatives(members, rng)
    meas = linefmt.measure(reps, core.scratch('probe'))
    mc = mc_stage(meas, tier)
    traces, meta = [], {}
    tid = 0
    n_train = 0
    for enc in ENCODINGS * (1 if tier == 'quick' else 12):
        chars = chars_for(meas, members, rng, enc)
        groups = [chars] if tier == 'quick' else [chars[i::3] for i in range(3)] + [chars]
        # $HEX[] lines can carry characters that a plain line cannot: every rejected class must stay rejected there
        if enc != 'utf-16':
            bad = []
            for k in linefmt.CLASSES:
                if k in meas['Rejects'] and k != 'SUR':
                    for cp in members[k][:3]:
                        try:
                            chr(cp).encode(enc)
                            bad.append(chr(cp))
                        except UnicodeEncodeError:
                            pass
            pws = training_list(chars[:6], rng)
            lines = [p.encode(enc) for p in pws]
            for c in bad:
                for s_ in ('ab' + c + 'cd', c + 'x', 'x' + c, c):
                    lines.append(b'$HEX[' + s_.encode(enc).hex().encode() + b']')
            lines.append(b'$HEX[]')
            res = train.train(raw=b'\n'.join(lines) + b'\n', encoding=enc, ngram=2, alphabet_size=100, coverage=0.6)
            if res['ok']:
                n_train += 1
                tr, tid = file_traces(tid, res, enc, meta, {'encoding': enc, 'variant': 'hex lines carrying rejected characters',
                                                            'classes': sorted(meas['Rejects'])})
                traces += tr
        for gi, grp in enumerate(groups):
            pws = training_list(grp, rng)
            for variant in (['plain'] if tier == 'quick' else ['plain', 'hex']):
                if variant == 'hex':
                    raw = b''.join(b'$HEX[' + p.encode(enc).hex().encode() + b']\n' for p in pws)
                    if enc == 'utf-16':
                        continue
                    res = train.train(raw=raw, encoding=enc, ngram=rng.choice([2, 3]), alphabet_size=100, coverage=0.6)
                else:
                    if enc == 'utf-16':
                        raw = '\n'.join(pws).encode('utf-16') + '\n'.encode('utf-16')[2:]
                        res = train.train(raw=raw, encoding=enc, ngram=2, alphabet_size=100, coverage=0.6)
                    else:
                        res = train.train(pws, encoding=enc, ngram=rng.choice([2, 3]), alphabet_size=100, coverage=0.6)
                if not res['ok']:
                    tid += 1
                    traces.append({'tid': tid, 'kind': 'file', 'reader': 'trainer', 'ok': False, 'want': [], 'got': []})
                    meta[tid] = {'encoding': enc, 'variant': variant, 'error': res['error'], 'out': res['stdout'][-300:]}
                    continue
                n_train += 1
                desc = {'encoding': enc, 'variant': variant, 'classes': sorted({k for k, _ in grp}),
                        'special_chars': ['U+%04X' % ord(c) for _, c in grp if ord(c) > 0x7e or c == ' '][:30]}
                tr, tid = file_traces(tid, res, enc, meta, desc)
                traces += tr
                if gi == 0 and variant == 'plain' and enc != 'utf-16':
                    # the same ruleset as a training on tens of millions of passwords leaves it: level probabilities
                    # (share of the passwords / keyspace) of 1e-17 and below, some of them closer together than the machine
                    # epsilon, one of them 0.0 - they are different numbers and must be read back as written
                    mp = os.path.join(res['dir'], 'Omen', 'pcfg_omen_prob.txt')
                    recs = rulesets.neutral_value_prob(mp, enc)
                    tiny = [3.1e-3, 4.5e-9, 1.6263032587282567e-17, 2.5641025641025642e-18, 0.0, 7.1e-19, 7.0e-19, 0.0, 3e-300, 5e-324]
                    with open(mp, 'w', encoding=enc, newline='') as f:
                        for i_, (v_, _) in enumerate(recs):
                            f.write('%s\t%s\n' % (v_, repr(tiny[i_ % len(tiny)])))
                    tr, tid = file_traces(tid, res, enc, meta, dict(desc, variant='level probabilities of a very large training'))
                    traces += tr
                    n_tiny[0] += 1

    # ---- the shipped rulesets (written by the trainer on real data): every rule file of up to 1500 records as each loader reads it
    n_shipped_files = 0
    for rname in (('Default',) if tier == 'quick' else ('Default', 'Russian')):
        d_ = os.path.join(core.REPO, 'Rules', rname)
        if os.path.isdir(os.path.join(d_, 'Grammar')):
            before_ = len(traces)
            tr, tid = file_traces(tid, {'dir': d_, 'captured': {}}, 'utf-8', meta, {'encoding': 'utf-8', 'variant': 'shipped ruleset ' + rname},
                                  max_records=1500)
            traces += tr
            n_shipped_files += len(traces) - before_

    # ---- a ruleset trained again IN PLACE on a list that lacks whole categories (no walk, digit, symbol, capital, year):
    # ---- what the second training wrote must again be what every loader reads, and the config lists = the files present
    rich = ['password1', 'Password!', '1qaz2wsx', 'zaq1!', 'love2019', 'abc#1', 'MONKEY12', '123456', '!!', 'qwer1234', 'a1!B2', 'x<3']
    poor_lists = [['password', 'letmein', 'monkey', 'dragon', 'password'], ['123456', '12345', '123456', '1'], ['love', 'Love', 'LOVE', 'lovelove']]
    for k, poor in enumerate(poor_lists if tier == 'thorough' else [poor_lists[seed % 3], poor_lists[(seed + 1) % 3]]):
        enc = rng.choice(['utf-8', 'iso-8859-1'])
        dest = core.scratch('retrain')
        r1 = train.train(rich * 2, dest=dest, encoding=enc, ngram=2, alphabet_size=100, coverage=0.6)
        r2 = train.train(poor, dest=dest, encoding=enc, ngram=2, alphabet_size=100, coverage=0.6) if r1['ok'] else r1
        if not r2['ok']:
            tid += 1
            traces.append({'tid': tid, 'kind': 'file', 'reader': 'trainer', 'ok': False, 'want': [], 'got': []})
            meta[tid] = {'encoding': enc, 'variant': 'retrained in place', 'error': r2['error'], 'out': r2['stdout'][-300:]}
            continue
        n_train += 2
        tr, tid = file_traces(tid, r2, enc, meta, {'encoding': enc, 'variant': 'retrained in place', 'first_list': rich[:6], 'second_list': poor})
        traces += tr

    verdicts, st = core.validate_traces('TrLine.tla', traces, chunk=200, timeout=600)
    for t in traces:
        v = verdicts[t['tid']]
        if v[0] != 'ACCEPT':
            m = meta[t['tid']]
            failing = list(v[1]) if isinstance(v[1], (tuple, list)) else [v[1]]
            verdict.violation(dict(m, clause='+'.join(failing), failing=failing, check='%s %s' % (m.get('reader'), m.get('encoding'))),
                              'clauses %s; %s' % (failing, core.short(m, 300)))
    def corrupt(t):
        if t['kind'] == 'file' and len(t['got']) >= 2:
            t['got'] = t['got'][:-1]                 # a loader that lost one record
            return t
        return None
    accepted = [t for t in traces if verdicts[t['tid']][0] == 'ACCEPT']
    selftest = core.binding_selftest('TrLine.tla', accepted, corrupt)
    verdict.matcher('C07-F9a-paragraph-separator', lambda w: w.get('lost_chars') == ['U+2029'] and w.get('reader') in ('G', 'S', 'OG'))
    verdict.matcher('C07-F10-omen-scorer-encoding', lambda w: w.get('reader') == 'OS' and w.get('encoding') != 'utf-8')
    rc, n_viol, n_known = verdict.finish()
    distinct = len({json.dumps({k: v for k, v in t.items() if k != 'tid'}, sort_keys=True) for t in traces if len(t.get('want', [])) > 1})
    s = traces[min(3, len(traces) - 1)]
    cov = {'states': mc['states'], 'transitions': mc['transitions'],
           'traces_validated_against_impl': len(traces),
           'samples': [{'meta': meta[s['tid']], 'want_head': [''.join(map(chr, w[0])) for w in s.get('want', [])[:6]]}],
           'model_checking': mc, 'evaluations': len(traces), 'distinct_nontrivial': distinct,
           'rule': 'one trace = one rule file of one real training (accepted special characters of every class in every position, '
                   'per encoding) as one real loader read it, against the LF-only neutral reading; plus config.ini lists',
           'rulesets_with_level_probabilities_below_the_machine_epsilon': n_tiny[0], 'views_of_shipped_rule_files': n_shipped_files, 'code_points_classified': 0x110000, 'representatives_probed': sum(len(v) for v in reps.values()),
           'trainings': n_train, 'trace_validation': st, 'exhaustive': False, 'binding_selftest': selftest,
           'known_findings_reproduced': n_known, 'violation_histogram': verdict.histogram()}
    core.write_evidence(pid, tier, seed, 'model_checking', cov, time.time() - t0, violations=n_viol,
                        assumptions=['TLC', 'class partition computed from str.splitlines / str.isspace over all code points; '
                                     'reader behaviour measured on every member of the small classes and sampled members of the large ones',
                                     'neutral reader: records split on LF only, value = text before the last TAB'])
    return rc
