"""Regenerates MANIFEST.json from the table below (run by hand when checks are added)."""
import json
import os

VERIF = os.path.dirname(os.path.dirname(os.path.abspath(__file__)))

MC = 'model_checking'
CHECKS = [
    dict(pid='C01', cat=MC, design='5/C01',
         technique='TLA+ I-layer PTQueue model-checked with TLC (all grammars in bound); every model grammar instantiated as a real ruleset; recorded pop histories of the real PcfgQueue validated by TLC against the P-layer trace spec TrPTQ (order/reported/deterministic) and the I-layer TrPTQ_I (state equality after each action)',
         text='Exhaustive TLC check of the heap/adoption model against the order invariant for every integer-weight grammar in the bound; each of those grammars is run on the real loader+queue and the recorded runs (plus float rulesets under all flag combinations, the PRINCE folder and a prefix of Rules/Default) are accepted or rejected by the TLA+ trace spec. Right level: order is a design property of the adoption rule (model) that the code must follow (traces).',
         note='Trusts TLC, dense-rank abstraction of floats, the Python-side reported-probability comparison (exact on dyadic rulesets, 1e-12 otherwise), heapq. Node universe is read from the loaded grammar.'),
    dict(pid='C02', cat=MC, design='5/C02',
         technique='TLC on PTQueue (NoDupFresh, FrontierFresh, NothingLost, liveness Terminates under WF) + TLC trace validation of exhaustive runs of the real queue (TrPTQ clauses C02_no_repeat / C02_complete) + TrPTQ_I conformance',
         text='Exactly-once is decided on the model for all tie patterns in the bound and on recorded exhaustive runs of the real queue for every model grammar and random float rulesets (duplicate structures, repeated types).',
         note='As C01. Guess-level multiset is C02 composed with C04.'),
    dict(pid='C08', cat=MC, design='5/C08',
         technique='TLC on PTQueue with QuitAndResume (transcription of _recursive_restore_prob_order / is_parent_around) over all cut points and cycles; real save/--load cycles through configparser text validated by TrPTQ (C08 clauses) and TrPTQ_I',
         text='All grammars x all cut points x up to 2 cycles model-checked; every (grammar, cut sequence) replayed on the real queue with the saved float going through the real config text round trip; bag/rank formulation so ties are free.',
         note='As C01. Session-level parts (CrackingSession loop, UUID refusal) are exercised by the Session checks (C12/C15) once built.'),
    dict(pid='C04', cat=MC, design='5/C04',
         technique='TLA+ transcription of _recursive_guesses (ExpandDefs.tla) model-checked by TLC against the declarative product for every pre-terminal shape in the catalogue; the catalogue is instantiated as a real ruleset; every real create_guesses() call is validated by TLC against TrExpand (bag equality with the product, count = lines, equal file probabilities) and against the I-layer line by line',
         text='Every pre-terminal of the model space and of generated rulesets (spaces, non-ASCII, non-BMP, multi-character upper-casings, multi-words) is expanded by the real code and judged by the TLA+ product definition.',
         note='Mask letter U means str.upper() (table exported from Python). For Markov pre-terminals the level string set is judged by C10; C04 checks count/limit handling on it.'),
    dict(pid='C09', cat=MC, design='5/C09',
         technique='TLC on Expand.tla (session limit loop over create_guesses, invariants LimitExact/PrefixSoFar for all runs x all N in bound); real CrackingSession.run(limit=N) and pcfg_guesser.py subprocess runs validated by TrExpand (prefix, length, stdout = guess stream)',
         text='The limit arithmetic (falsy-0 test, == 0 vs <= 0, per-pre-terminal accounting) is exhaustively checked on the model; the real tool is run for N inside/at/after pre-terminals and Markov levels and its stdout compared line for line.',
         note='CLI runs keep stdin an open pipe (stdin conditions are C12). Only N >= 1 and loadable rulesets as quantified.'),
    dict(pid='C14', cat=MC, design='5/C14',
         technique='TLA+ I-layer Loader.tla (pre-scan with file cursor, seek, second loop, division, M filter, C insertion) model-checked by TLC for all files in bound x both flags; every model file loaded by the real _load_base_structures and judged by TLC (TrLoader: same structures in order, rescaled by 1/(1-P(M))); real queue streams with/without --skip_brute, loaded grammars with/without --all_lower, and pcfg_guesser.py start/--load pairs (flags from the save file) validated by TrLoader',
         text='The cursor logic is exhaustively checked on the model (Markov line first/middle/last/absent/alone); the same files go through the real loader; stream-, grammar- and CLI-level traces are accepted or rejected by the TLA+ P-layer.',
         note='Loaded probabilities are rationalised (limit_denominator 64) for TLC, rescaling compared with relative 1e-9; float near-ties (1e-12) count as ties for the order clause.'),
    dict(pid='C17', cat=MC, design='5/C17',
         technique='TLC on Expand.tla with the PRINCE loop (constant PassLimit) for all runs of single-unit pre-terminals x all N; TLC on PTQueue for the order; real create_prince_wordlist / prince_ling.py runs (stdout and -o file, both --all_lower settings) validated by TrPTQ (order, each pre-terminal once) and TrExpand (product, first-N prefix, file = stdout)',
         text='Order and exactly-once come from the queue model; the --size loop is model-checked with and without the limit being passed down; every N on generated Prince grammars is run on the real code and judged by the TLA+ trace specs.',
         note='As C01/C04. Prince grammars are generated (float and dyadic), not only trainer-produced.'),
    dict(pid='C20', cat=MC, design='5/C20',
         technique='TLA+ I-layer EditRules.tla (label arithmetic, three-way keep condition, terminal-set filter) model-checked by TLC against the P-layer that judges structures by the true lengths of the strings their labels stand for; real edit_rules.py subprocess runs + real guesser on the result validated by TrEdit (survivors identical and in order, only failing removed, kept pass, guess lengths, other files / --copy source untouched); the shipped Default ruleset through eight edits (guess-length span from the value lengths behind every label)',
         text='The filter logic is exhaustively checked on the model for all min/max pairs, terminal sets and structure lists in bound (with the open finding C20-F12 as a named exclusion that must fail without it); the real tool is run on generated rulesets with random filter combinations.',
         note='Regex semantics are Python re (booleans in the trace); digests compared in Python; the fate of the Markov structure under a length filter is treated as unspecified.'),
    dict(pid='C10', cat=MC, design='5/C10',
         technique='TLA+ Omen.tla (Level, pruned LevelSet, declarative LevelSetD) model-checked by TLC over every small OMEN model (two definitions agree); the model space is exported and each model written as real IP/CP/LN.level files; every level drained from the real MarkovCracker under several cache histories is validated by TLC against TrOmen (each string once, only strings of the level, none missing, exhaustion reported)',
         text='TLC is the independent enumerator: for whatever model the real generator was given (model-checked space, random models with n up to 5 incl. all-level-10 boundaries, trainer-produced models) the emitted list must equal LevelSet exactly, for fresh/shared/shuffled/repeated cache histories.',
         note='The model is read back from the rule files by the harness neutral reader. OmenEnum.tla (MarkovCracker cursors, GuessStructure parse-tree backtracking, shared Optimizer memo; one action per next_guess()) is model-checked against LevelSet for every small model, level and second level sharing the memo, and the real generator is stepped call by call with guess, parse tree, cursors and the whole memo compared to the model (TrOmenEnum, drift only).'),
    dict(pid='C18', cat=MC, design='5/C18',
         technique='TLA+ transcription of calc_omen_keyspace/_rec_calc_keyspace (MC_Omen.tla CalcKeyspace, constants FixKeyLen/FixKeyZero) model-checked against Cardinality(LevelSet) for every small model; the real calc_omen_keyspace is called on every exported model and real trainings are compared three ways (omen_keyspace.txt, generator count, TLC cardinality) by TrOmen',
         text='Keyspace exactness is decided on the model for all small models and on the real function for the same models; trained rulesets dominated by n-gram-size passwords or a single length are checked end to end.',
         note='Saved probability identity (count/N)/keyspace compared in Python with 1e-12. The max_keyspace cut-off (1e10) is not reachable by a recorded run and is not claimed.'),
    dict(pid='C11', cat=MC, design='5/C11',
         technique='TLA+ transcriptions of the trainer find_omen_level and the scorer OmenScorer.parse (MC_Omen TrainerLevel / ScorerLevel) model-checked by TLC against Omen!Level for every trainer-shaped model in bound and every string up to one character beyond the longest length incl. a foreign character (ThreeAgree; the generator side is OmenEnum = LevelSet); every model of that space given to the three real implementations; TLC evaluates Omen!Level (single TLA+ definition) on the level tables exported from the trainer memory and compares it with the levels reported by the real trainer third pass, the real OmenScorer and the real Markov generator for every candidate string (TrOmen clauses C11_*), plus omen_pws_per_level against the tally of Level',
         text='Agreement of three implementations with one TLA+ definition on real trainings (several lists incl. rare initial n-grams, n-gram sizes 2-5, alphabet sizes) and candidate strings incl. out-of-alphabet characters and boundary lengths.',
         note='Model-checked on the small model space; trainer-produced rulesets are sampled trainings. The smoothing logarithm is not modelled (level tables are data). UTF-8 rulesets (other encodings are C07).'),
    dict(pid='C12', cat=MC, design='5/C12',
         technique='TLA+ Session.tla (Main || Kbd processes with program counters, keyboard scripts incl. EOF, .sav/.omn store, reload) model-checked by TLC over all interleavings; the real keypress thread and the real CrackingSession.run are run in real threads stopped at gates (input, sleep, status, set_exit / pop, read_alive, read_exit, emit, save) and released under systematic (keyboard burst at every step) and random schedules; the real script is run under every stdin condition (open pipe, EOF, /dev/null, closed fd, pty, status requests); all recorded histories (session + its resume) are validated by TLC against TrSession',
         text='Every interleaving of a small session is explored on the model; on the code, deterministic gate-to-gate schedules place the keyboard thread\'s steps at every position of the main loop, and the recorded streams are accepted only if they are an unaltered contiguous part of the expected stream, not shortened without a quit, stopped at a legal point, and resumable to exactly the remainder.',
         note='Gates are installed from outside (no source hooks); a thread counts as dead once its function returned. Rulesets without probability ties (ties are C08). Status-report text is not checked.'),
    dict(pid='C15', cat=MC, design='5/C15',
         technique='TLC on Session.tla (OMEN cut, stale option, last pre-terminal) + real CrackingSession.run histories that quit inside a Markov level at every position j followed by further quit/resume cycles (inside the remainder, outside OMEN, inside the replay) validated by TrSession; real MarkovCracker save_session/load_session at every cut j validated by TrOmen (resume = suffix of the uninterrupted sequence); the same histories with one OS process per session under different string-hash seeds',
         text='All cut positions inside each Markov level of generated rulesets, with later quits, are run on the real session code with the real pickle files; TLC accepts a history only if each session continues exactly where the previous one stopped (C08\'s tied-group replay of a last Markov level allowed).',
         note='The scripted keyboard thread sets should_exit after the n-th printed guess. Fresh Optimizer after resume.'),
    dict(pid='C07', cat=MC, design='5/C07',
         technique='TLA+ LineFormat.tla over character behaviour classes whose reader constants (what the input filter rejects, what each of the four readers splits on / strips) are measured from the real functions on every run; TLC checks the round-trip invariant for every accepted value up to the bound and predicts violations; real trainings with every accepted special character in every position and encoding are loaded by the real guesser loader, scorer loader, OMEN loader and OmenScorer and compared record by record with the LF-only neutral reading by TLC (TrLine), plus config.ini file lists vs files present',
         text='The class partition covers all 0x110000 code points; the model is exhaustive over class strings given the measured reader behaviour; the verdict comes from real write/read round trips through all four loaders in utf-8, iso-8859-1, cp1251 and utf-16.',
         note='Reader behaviour is measured on every member of the small classes and on sampled members of ORD/NONBMP. The neutral reader (LF-only, last TAB) is the statement of what the format means.'),
    dict(pid='C19', cat=MC, design='5/C19',
         technique='TLA+ Reader.tla (records over character classes, codec physical-line splitting, count prefix, $HEX[], check_valid, yield n times) model-checked by TLC: every encoding of every file in bound yields the sequence the file means; every single-record file of the model space and random multi-record files are instantiated (utf-8, iso-8859-1, cp1251) as plain / CRLF / hex / count-prefixed / count+hex / mixed files and read by the real TrainerFileInput (three passes); TLC compares the yielded sequences (TrLine seq) and whole real trainings file by file (TrLine same); autodetected encoding compared across plain / $HEX[] and LF / CRLF spellings',
         text='Equivalence of encodings and non-leakage of skipped records is exhaustive on the model and checked on the real reader for the same space; ruleset identity is checked on real trainings of plain vs hex vs count-prefixed lists.',
         note='The meaning of a generated record (valid / skipped) is fixed by construction. Control characters generated: C0, NEL, LS, PS (DEL / C1 are not claimed). Digests computed in Python.'),
    dict(pid='C16', cat=MC, design='5/C16',
         technique='TLA+ Honey.tla (random_walk cumulative loop over integer weights, Owner intervals, Measure) model-checked by TLC for all lists in bound x all draws on a grid (walk = owner, measure = weight); the real random_walk is driven with scripted uniforms just below / at / just above every breakpoint and at midpoints and the chosen pre-terminal validated by TLC (TrHoney walk); real honeywords with scripted in-group choices validated against ExpandDefs!Derive (TrExpand honey); whole honeyword / random_walk sessions and pcfg_guesser.py runs checked for exactly N words, membership and reproducibility (TrHoney run)',
         text='The sampler is a piecewise constant function of its draws; sweeping the breakpoints decides its measure exactly (whole unit interval, not a sample) for dyadic rulesets.',
         note='Dyadic probabilities (denominator 16) so that the float partial sums are exact; lists that sum to 1. Non-dyadic float rulesets are only covered up to the 1e-16 rounding of the cumulative sums (not claimed).'),
    dict(pid='C05', cat=MC, design='5/C05',
         technique='TLA+ Segment.tla (exact year / context / alpha / digit / other stage functions over abstract characters) model-checked by TLC for all strings in bound (tiling at every stage, no empty or untyped segment, sound labels); the same strings are parsed by the real PCFGPasswordParser and its final list compared with Segment!Pipeline evaluated by TLC (spec -> code); every real parse (model-space strings and fragment passwords with a multi-word history, Unicode, walks, TLDs, e-mails) is snapshotted after every detector stage and validated by TLC against TrSeg (tiling, refinement chain, label soundness incl. keyboard geometry, maximal digit runs, multi-word rule, counters = tallies, structure counters)',
         text='Exhaustive over abstract strings for the exact stages; on real parses every stage transition and every counter update is judged by the TLA+ P-layer.',
         note='Keyboard / e-mail / website detectors are judged by soundness of what they label. Character attributes come from Python str methods. Open finding C05-F11 (U+0130).'),
    dict(pid='C06', cat=MC, design='5/C06',
         technique='TLA+ Train.tla (Counter.most_common as stable sort, count/total, Markov pseudo-count N*(1/coverage-1) in scaled integers, coverage 0 / 1 cases, e-mail / website structures only in the raw list) model-checked by TLC for all small tallies x coverages; every saved list of real trainings (all terminal, mask, structure, raw, prince, provider and host lists) is compared by TLC with the tallies captured from the trainer memory (TrTrain list / grammar), and two trainings of the same input are compared file by file (TrTrain same); trainer.py command line with thirteen option sets compared with run_trainer on the same values',
         text='Each list: every tallied item exactly once, probability = count/total, most to least probable, sums to the total; structure list coverage clauses; determinism.',
         note='p == count/total is checked in binary64 in Python (structure list: 1e-12 against the exact rational); counts passed to TLC as integers (scaled by the coverage numerator).'),
    dict(pid='C03', cat=MC, design='5/C03',
         technique='TLA+ Compose.tla (trainer -> guesser -> scorer on one training list, exact rational probabilities) model-checked by TLC for every list in bound (TrainingReproduced, SumsToOne); every list of that space sampled through the real trainer + guesser and judged by TrCompose; Loader.tla insertion loop model-checked and every model file loaded by the real loader (TrLoader insert); real trainings of generated lists (words, three-word multi-words with per-word capitalisation, digits, years, symbols, walks, context strings, spaces, Cyrillic / Greek / Latin-1 letters, non-BMP symbols, duplicates; coverage, n-gram size, alphabet size and encoding varied) followed by the real guesser with --skip_brute run to exhaustion; TLC checks that every supported training password (segmentation recorded with the real detectors, no e-mail / website segment) is among the emitted guesses (TrTrain lang); probability sum compared in Python; membership decided by matching against the loaded grammar when a trained language is too large to enumerate',
         text='The composition trainer -> guesser is model-checked exhaustively on small lists (Compose.tla) and the real tools are run on that space (TrCompose); end-to-end on real inputs: Segment o Train o Loader o PTQueue o Expand, whose parts are model-checked separately (C05, C06, C14, C02, C04).',
         note='Model-checked on the small composition space; beyond it inputs are sampled. Domain: letters with one-to-one case mapping (as stated). Coverage 0 is outside C03 (by C06 the grammar then holds only the Markov structure).'),
    dict(pid='C13', cat=MC, design='5/C13',
         technique='TLA+ Compose.tla (PromiseKept, ScoreOfGuess, OnlyOwnStructure over every training list x candidate in bound, exact rationals) and Scorer.tla (case mappings) model-checked by TLC; lists of the model space run through the real trainer, guesser and scorer and judged by TrCompose (exact rational comparison); real trainings, the real PCFGPasswordScorer and the real guesser language table (every non-Markov pre-terminal expanded); for every candidate string (training passwords, guesser output, one-edit perturbations, unrelated strings, e-mail / website strings) TLC checks on ranks (floats clustered within 1e-9) that a non-zero score equals the probability of a pre-terminal that emits exactly this string, that e-mail / website strings are classified and scored 0, and that rescoring in another order gives the same result (TrScore); real password_scorer.py output and a second scorer with a cut-off compared with the library scores; on the shipped rulesets the guesser side is decided by matching each string against the loaded grammar',
         text='The promise is an invariant of the composition model (Compose.tla, Scorer.tla) checked exhaustively in bound; the real scorer and guesser are run on the model space (exact rationals) and on real rulesets over thousands of candidates per run.',
         note='Model-checked on the small composition space; beyond it candidates are sampled. Open finding C13-F15 (letters with non-invertible case mapping).'),
]

NOT_YET = {
}
ALL = ['C%02d' % i for i in range(1, 21)]


def main():
    checks = []
    for c in CHECKS:
        checks.append({
            'property_id': c['pid'],
            'quick_cmd': './check %s --tier quick' % c['pid'],
            'thorough_cmd': './check %s --tier thorough' % c['pid'],
            'evidence_file': 'evidence/%s.json' % c['pid'],
            'replay_cmd_template': './check %s --replay {path}' % c['pid'],
            'engine': 'tlc',
            'level_claimed': {'category': c['cat'], 'text': c['text'], 'design_ref': 'DESIGN.md section ' + c['design']},
            'level_note': c['note'],
            'technique': c['technique'],
        })
    claimed = {c['pid'] for c in CHECKS}
    na = [{'property_id': p, 'reason': NOT_YET.get(p, 'check not built yet in this round (planned, see DESIGN.md section 9); no claim is made')}
          for p in ALL if p not in claimed]
    m = {
        'version': 1,
        'setup_cmd': './setup.sh',
        'hooks': {
            'guard': 'LAKIW_PCFG_CRACKER_VERIF',
            'enable': 'no source hooks: the harness substitutes names in module namespaces from outside (DESIGN.md 3.4); checks import /repo working tree directly',
            'baseline_off_cmd': 'cd /repo && /venv/bin/python -m pytest -ra -q -p no:cacheprovider --timeout=900 --continue-on-collection-errors',
            'source_commits': [],
            'add_only': True,
        },
        'engines': [{'name': 'tlc', 'path': 'spec/', 'serves_properties': sorted(claimed),
                     'kind_free_text': 'TLA+ specifications checked with TLC 1.8 (exhaustive small-scope model checking, input export, batched trace validation)'}],
        'checks': checks,
        'not_applicable': na,
        'notes': 'Verdicts come from TLA+ P-layer trace specs evaluated by TLC on runs recorded from /repo working tree; see DESIGN.md. known_findings.json lists open/fixed findings.',
    }
    with open(os.path.join(VERIF, 'MANIFEST.json'), 'w') as f:
        json.dump(m, f, indent=1)


if __name__ == '__main__':
    main()
