"""Entry point: ./check <ID> [--tier quick|thorough] [--replay <file>]"""
import argparse
import importlib
import os
import sys
import traceback

from . import core

CHECKS = {
    'C01': 'check_ptq', 'C02': 'check_ptq', 'C08': 'check_ptq',
    'C04': 'check_expand', 'C09': 'check_expand',
    'C14': 'check_loader', 'C17': 'check_prince', 'C20': 'check_edit',
    'C12': 'check_session', 'C15': 'check_session',
    'C03': 'check_train', 'C06': 'check_train',
    'C13': 'check_score',
    'C05': 'check_segment', 'C16': 'check_honey',
    'C07': 'check_line', 'C19': 'check_reader',
    'C10': 'check_omen', 'C11': 'check_omen', 'C18': 'check_omen',
}


def main():
    ap = argparse.ArgumentParser()
    ap.add_argument('pid')
    ap.add_argument('--tier', default=os.environ.get('VERIF_TIER', 'quick'), choices=['quick', 'thorough'])
    ap.add_argument('--replay')
    a = ap.parse_args()
    seed = int(os.environ.get('VERIF_SEED', '0') or 0)
    if a.pid not in CHECKS:
        print('unknown property ' + a.pid, file=sys.stderr)
        return 2
    mod = importlib.import_module('harness.' + CHECKS[a.pid])
    # wall-clock budget: code under test that never ends (a queue that never runs empty, a session loop that never stops)
    # must not hang the check for ever - it is reported as a machinery failure (exit 2), never as "ok"
    import signal
    budget = int(os.environ.get('VERIF_TIMEOUT', '') or (2400 if a.tier == 'quick' else 6 * 3600))

    def on_alarm(signum, frame):
        print('MACHINERY FAILURE: %s %s exceeded its wall-clock budget of %d s (possibly non-terminating code under test)'
              % (a.pid, a.tier, budget), file=sys.stderr)
        sys.stderr.flush()
        os._exit(2)
    signal.signal(signal.SIGALRM, on_alarm)
    signal.alarm(budget)
    try:
        if a.replay:
            return mod.replay(a.pid, a.replay)
        rc = mod.main(a.pid, a.tier, seed)
        print('%s %s: %s' % (a.pid, a.tier, 'ok' if rc == 0 else 'VIOLATIONS'))
        return rc
    except core.ModelViolation as ex:
        # a counterexample on a *model* is a machinery problem until reproduced on the code
        print('MODEL-COUNTEREXAMPLE (not a verdict): %s' % ex, file=sys.stderr)
        print(ex.result.out[-3000:], file=sys.stderr)
        return 2
    except core.MachineryError as ex:
        print('MACHINERY FAILURE: %s' % ex, file=sys.stderr)
        return 2
    except Exception as ex:
        traceback.print_exc()
        # an exception that was raised INSIDE the code under test (a frame of the repository's working tree is on the
        # traceback) while a driver fed it inputs the unchanged tree handles: the tool raised where it must produce its output.
        # That is a verdict about the code, not a failure of the machinery (which is what every other exception is).
        frames = traceback.extract_tb(ex.__traceback__)
        repo = os.path.realpath(core.REPO) + os.sep
        inside = [f for f in frames if os.path.realpath(f.filename).startswith(repo)]
        if inside:
            v = core.Verdict(a.pid)
            v.violation({'clause': 'code_under_test_raised', 'error': repr(ex), 'where': '%s:%d %s' % (inside[-1].filename[len(repo):], inside[-1].lineno, inside[-1].name),
                         'check': 'uncaught exception from the code under test'},
                        'the code under test raised %r at %s:%d' % (ex, inside[-1].filename[len(repo):], inside[-1].lineno))
            rc, n_viol, n_known = v.finish()
            print('%s %s: %s' % (a.pid, a.tier, 'ok' if rc == 0 else 'VIOLATIONS'))
            return rc
        return 2


if __name__ == '__main__':
    sys.exit(main())
