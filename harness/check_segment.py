"""C05: training segments every password into a lossless, soundly typed tiling.
Model: spec/Segment.tla; verdict: spec/TrSeg.tla."""
import itertools
import json
import os
import random
import time

from . import core, segment

ALPHABET = ['a', 'B', 'q', 'z', '1', '9', '2', '0', '#', '<', '3', '!', ' ']
EW_ALPHABET = ['.', 'c', 'o', 'm', '@', '/', 'a', '1', 'w', 'B']
BASE_WORDS = ['pass', 'word', 'love', 'monkey', 'chair', 'table']


def mc_stage(tier):
    mod = os.path.join(core.SPEC, 'Segment.tla')
    cfg = os.path.join(core.SPEC, 'MC_Segment_%s.cfg' % tier)
    r = core.tlc_must_pass(mod, cfg, 'Segment ' + tier, timeout=3000)
    cfg2 = os.path.join(core.SPEC, 'MC_Segment_ew_%s.cfg' % tier)
    r2 = core.tlc_must_pass(mod, cfg2, 'Segment e-mail/website ' + tier, timeout=6000)
    # the TLD list is a measured constant of the model: it must be the code's list
    from lib_trainer.detection_rules.tld_list import get_tld_list
    want = ['.com', '.org', '.edu', '.gov', '.uk', '.net', '.ca', '.de', '.jp', '.fr', '.au', '.us', '.ru', '.ch', '.it', '.nl.se', '.no', '.es', '.mil']
    return {'cfg': os.path.basename(cfg), 'states': r.distinct + r2.distinct, 'transitions': r.generated + r2.generated,
            'wall_s': round(r.wall + r2.wall, 1), 'email_website_cfg': os.path.basename(cfg2),
            'tld_list_of_model_is_the_codes': get_tld_list() == want}


def model_pipeline(strings):
    d = core.scratch('segexp')
    inp = os.path.join(d, 'in.json')
    out = os.path.join(d, 'out.json')
    with open(inp, 'w') as f:
        json.dump([list(s) for s in strings], f)
    cfg = os.path.join(d, 'e.cfg')
    with open(cfg, 'w') as f:
        f.write('SPECIFICATION ESpec\nCONSTANTS\n  Alphabet = {"a"}\n  MaxLen = 1\n')
    r = core.tlc(os.path.join(core.SPEC, 'Export_Segment.tla'), cfg, workers=1, timeout=1800,
                 env={'IN_FILE': inp, 'OUT_FILE': out}, deadlock=False)
    if not os.path.exists(out):
        raise core.MachineryError('Segment export failed:\n' + r.out[-2000:])
    with open(out) as f:
        return json.load(f)


def main(pid, tier, seed):
    t0 = time.time()
    rng = random.Random(seed)
    verdict = core.Verdict(pid)
    mc = mc_stage(tier)
    traces, meta = [], {}
    tid = 0
    # ---- spec -> code: strings of the model space ----
    strings = []
    for n in range(1, 4):
        strings += [''.join(t) for t in itertools.product(ALPHABET, repeat=n)]
    longer = [''.join(rng.choice(ALPHABET) for _ in range(rng.choice([4, 5]))) for _ in range(2500 if tier == 'quick' else 40000)]
    walky = [''.join(rng.choice(['1', 'q', 'a', 'z', '2', '!', '#', '3']) for _ in range(rng.choice([4, 5]))) for _ in range(600 if tier == 'quick' else 8000)]
    strings += sorted(set(longer) | set(walky))
    # e-mail / website stages: strings over the alphabet of MC_Segment_ew_*.cfg (exhaustive up to 4, fragments beyond)
    n_base = len(strings)
    ew = []
    for n in range(1, 4 if tier == 'quick' else 5):
        ew += [''.join(t) for t in itertools.product(EW_ALPHABET, repeat=n)]
    ew += [''.join(rng.choice(EW_ALPHABET) for _ in range(rng.choice([4, 5, 6]))) for _ in range(2500 if tier == 'quick' else 40000)]
    frag = ['.com', '.ca', 'www.', '@', '/', 'a', 'B', '1', 'w', 'c', 'o', 'm', '.', 'com', '.co', 'a.com', '@a.ca']
    for _ in range(1500 if tier == 'quick' else 30000):
        ew.append(''.join(rng.choice(frag) for _ in range(rng.randint(2, 5)))[:14])
    strings += sorted(set(ew) - set(strings))
    model = model_pipeline(strings)
    rec = segment.Recorder()
    drift = []
    n_kfired = 0
    for s, mfinal in zip(strings, model):
        tid += 1
        tr, raised = rec.parse(s, tid)
        traces.append(tr)
        meta[tid] = {'password': s, 'kind': 'model space', 'raised': raised}
        # I-layer conformance: the real final list equals the model's
        fin = tr['snaps'][-1]['sl']
        inv = {}
        # characters back from ids
        real = []
        idmap = {}
        for ch in set(s) | set(s.lower()):
            pass
        # rebuild texts by position: concatenate lengths
        pos = 0
        for sec in fin:
            L = len(sec['t'])
            real.append((s[pos:pos + L].lower() if sec['k'] == 'W' else s[pos:pos + L], sec['k'], sec['n']))
            pos += L
        want = [(''.join(x['t']), x['k'], x['n']) for x in mfinal]
        kfired = any(sec['k'] for sec in tr['snaps'][1]['sl'])
        if kfired:
            n_kfired += 1
        if real != want:
            drift.append({'password': s, 'real': real, 'model': want})

    # ---- code -> spec: fragment passwords under several multi-word histories ----
    n_frag = 1500 if tier == 'quick' else 25000
    histories = []
    for h in range(4 if tier == 'quick' else 12):
        training = []
        words = rng.sample(BASE_WORDS + ['dragon', 'sun', 'moon', 'star'], rng.randint(3, 7))
        for w in words:
            # around the threshold of 5: some words are base words, some are one short of it
            training += [w] * rng.choice([3, 4, 5, 5, 6, 9]) + ([w + '1'] if rng.random() < 0.5 else [])
        if rng.random() < 0.5:
            training += [words[0] + words[1]] * rng.choice([1, 5])       # a whole multi-word that may itself be a base word
        training += ['password', 'Password', 'passwordpass'] * rng.randint(0, 3)
        # letter runs that are NOT words of the history: runs shorter than four letters followed, after a non-letter, by
        # another run (the two must not be glued into a word), runs cut by digits / symbols in the middle of a password
        glue = []
        for _ in range(rng.randint(1, 3)):
            short = rng.choice(['my', 'i', 'abc', 'xy', 'the'])
            w = rng.choice(words)
            sep = rng.choice(['1', '!', ' ', '12', '_'])
            training += [short + sep + w] * rng.choice([5, 6, 9])
            glue.append(short + w)
            if rng.random() < 0.5:
                training += [w[:2] + sep + w[2:] + sep + short] * 5
                glue.append(w)
        histories.append((words, training, segment.Recorder(training), glue))
    for k in range(n_frag):
        words, training, rec2, glue = histories[k % len(histories)]
        pw = segment.random_password(rng, with_dotted_i=(k % 10 == 0))
        if rng.random() < 0.08:
            pw = rng.choice(glue) + rng.choice(words + [''])          # starts with letters that were never one word
        if rng.random() < 0.35:
            parts = [rng.choice(words) for _ in range(rng.choice([2, 2, 3]))]
            parts = [p if rng.random() < 0.6 else rng.choice([p.capitalize(), p.upper()]) for p in parts]
            pw = ''.join(parts) + rng.choice(['', '1', '!', '2019'])
        pw = pw[:21]
        if not pw:
            continue
        tid += 1
        tr, raised = rec2.parse(pw, tid)
        traces.append(tr)
        meta[tid] = {'password': pw, 'kind': 'fragments', 'raised': raised, 'history': k % len(histories),
                     'final': [(len(x['t']), x['k'], x['n']) for x in tr['snaps'][-1]['sl']]}

    # ---- the shared special training lists: every password parsed under the multi-word history of its own list ----
    from . import lists as _lists
    for sname, (pws_, sopt) in sorted(_lists.special_lists().items()):
        rec3 = segment.Recorder(pws_)
        for pw in sorted(set(pws_)):
            if not pw or len(pw) > 21:
                continue
            tid += 1
            tr, raised = rec3.parse(pw, tid)
            traces.append(tr)
            meta[tid] = {'password': pw, 'kind': 'special list ' + sname, 'raised': raised,
                         'final': [(len(x['t']), x['k'], x['n']) for x in tr['snaps'][-1]['sl']]}

    # ---- the multi-word detector itself (MultiWord.tla): train / parse against the model, both directions ----
    from . import multiword
    mw_cov = multiword.stage(tier, random.Random(seed * 7919 + 13), verdict)

    verdicts, st = core.validate_traces('TrSeg.tla', traces, chunk=500, timeout=900)
    for t in traces:
        v = verdicts[t['tid']]
        if v[0] != 'ACCEPT':
            m = meta[t['tid']]
            failing = list(v[1]) if isinstance(v[1], (tuple, list)) else [v[1]]
            verdict.violation(dict(m, clause='+'.join(failing), failing=failing, check='U+0130' if 'İ' in m['password'] else m['kind']),
                              'clauses %s; password %r' % (failing, m['password']))
    def corrupt(t):
        fin = t['snaps'][-1]['sl']
        k = next((i for i, sec in enumerate(fin) if sec['k'] in ('A', 'D', 'O') and sec['n'] >= 1), None)
        if k is None:
            return None
        fin[k]['n'] += 1                             # a length-indexed label that lies about its segment
        return t
    accepted = [t for t in traces if verdicts[t['tid']][0] == 'ACCEPT']
    selftest = core.binding_selftest('TrSeg.tla', accepted, corrupt)
    verdict.matcher('C05-F11-dotted-capital-i', lambda w: 'İ' in w.get('password', ''))
    rc, n_viol, n_known = verdict.finish()
    distinct = len({meta[t['tid']]['password'] for t in traces if len(t['snaps'][-1]['sl']) > 1})
    s = traces[-1]
    cov = {'states': mc['states'], 'transitions': mc['transitions'],
           'traces_validated_against_impl': len(traces),
           'samples': [{'meta': meta[s['tid']], 'snapshots': [x['st'] for x in s['snaps']]}],
           'model_checking': mc, 'evaluations': len(traces), 'distinct_nontrivial': distinct,
           'rule': 'one trace = one real PCFGPasswordParser.parse call with the section list snapshotted after every detector stage and the '
                   'counter deltas; non-trivial = more than one final segment; distinct by password',
           'model_space_strings_parsed': len(strings),
           'impl_conformance': {'compared': len(strings), 'keyboard_stage_fired': n_kfired, 'result': 'drift' if drift else 'conforms', 'drift_examples': drift[:3]},
           'trace_validation': st, 'multiword_detector': mw_cov, 'exhaustive': False, 'known_findings_reproduced': n_known, 'binding_selftest': selftest,
           'violation_histogram': verdict.histogram()}
    core.write_evidence(pid, tier, seed, 'model_checking', cov, time.time() - t0, violations=n_viol,
                        assumptions=['TLC', 'character attributes (isalpha, isdigit, isupper, lower) taken from Python str methods',
                                     'keyboard / e-mail / website detectors judged by soundness of what they label, not by what they should find',
                                     'multi-word history recomputed by the harness (letter runs of >= 4 letters in passwords of 4..21 characters)'])
    return rc
