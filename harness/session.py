"""Drive the real CrackingSession.run / pcfg_guesser CLI from outside (no source hooks)."""
import configparser
import contextlib
import io
import os
import subprocess
import sys
import threading
import types

from . import core

core.use_repo()


class FakeThread:
    """Stands in for threading.Thread inside lib_guesser.cracking_session: the keyboard thread is never
    started; its liveness is scripted by the controller."""
    controller = None

    def __init__(self, target=None, args=()):
        self.target, self.args = target, args
        self.daemon = True

    def start(self):
        pass

    def is_alive(self):
        return FakeThread.controller.alive()


class QuitController:
    """Thread 'dies' (= user quit, the only signal the pinned loop looks at) once `k` guesses-groups
    were started; also sets should_exit like the real keypress does."""

    def __init__(self, pcfg, quit_at_pt=None, quit_at_guess=None):
        self.pcfg = pcfg
        self.quit_at_pt = quit_at_pt          # quit is noticed at the (k+1)-th pop (0-based k)
        self.quit_at_guess = quit_at_guess    # set should_exit after this many guesses were printed
        self.polls = 0
        self.guesses = 0
        self.quit = False

    def alive(self):
        k = self.polls
        self.polls += 1
        if self.quit_at_pt is not None and k >= self.quit_at_pt:
            self.request_quit()
        return not self.quit

    def request_quit(self):
        self.quit = True
        self.pcfg.should_exit = True

    def on_guess(self):
        self.guesses += 1
        if self.quit_at_guess is not None and self.guesses >= self.quit_at_guess:
            self.request_quit()


def new_save_config(rule_name='verif', skip_brute=False, skip_case=False, uuid=None):
    import pcfg_guesser
    cfg = pcfg_guesser.create_save_config({'rule_name': rule_name, 'skip_brute': skip_brute, 'skip_case': skip_case})
    if uuid is not None:
        cfg.set('rule_info', 'uuid', uuid)
    return cfg


def stamp_uuid(save_config, pcfg):
    """what pcfg_guesser.main() does for a new session before it starts the CrackingSession"""
    if not save_config.has_option('rule_info', 'uuid'):
        save_config.set('rule_info', 'uuid', pcfg.ruleset_info['uuid'])


def run_session(pcfg, save_config, save_filename, load=False, limit=None, quit_at_pt=None,
                quit_at_guess=None):
    """One real CrackingSession.run() with the keyboard thread replaced by a script.
    returns dict(lines=[...], events=[('pt', pt_item) | ('guess', s)], saved=bool)"""
    import lib_guesser.cracking_session as cs
    stamp_uuid(save_config, pcfg)
    ctl = QuitController(pcfg, quit_at_pt, quit_at_guess)
    FakeThread.controller = ctl
    lines = []
    events = []

    def capture(guess):
        lines.append(guess)
        events.append(('guess', guess))
        ctl.on_guess()

    pcfg.print_guess = capture
    pcfg.should_exit = False
    pcfg.omen_exit = False
    real_threading = cs.threading
    cs.threading = types.SimpleNamespace(Thread=FakeThread, main_thread=threading.main_thread)
    popped = []
    real_queue = cs.PcfgQueue

    class RecQueue(real_queue):
        def next(self):
            it = real_queue.next(self)
            if it is not None:
                popped.append(it)
                # the user asks to quit while the (k+1)-th pre-terminal is being fetched: the loop notices it right after
                # the pop (that pre-terminal is saved as the position, not guessed).  The request is made here, at the pop,
                # because the loop no longer polls the keyboard thread (fix 283e0b7).
                if ctl.quit_at_pt is not None and len(popped) >= ctl.quit_at_pt + 1:
                    ctl.request_quit()
            return it
    cs.PcfgQueue = RecQueue
    sess = cs.CrackingSession(pcfg, save_config, save_filename)
    saves = []
    orig_save = sess._save_session

    def counted_save(*a, **kw):
        saves.append(len(lines))
        return orig_save(*a, **kw)
    sess._save_session = counted_save
    orig_create = pcfg.create_guesses

    def create(pt, *a, **kw):
        events.append(('pt', pt))
        return orig_create(pt, *a, **kw)

    pcfg.create_guesses = create
    err = io.StringIO()
    raised = None
    try:
        with contextlib.redirect_stderr(err), contextlib.redirect_stdout(io.StringIO()) as out:
            try:
                sess.run(load_session=load, limit=limit)
            except Exception as ex:          # the code under test raised: the session died (recorded, judged by the caller)
                raised = repr(ex)
    finally:
        cs.threading = real_threading
        cs.PcfgQueue = real_queue
        pcfg.create_guesses = orig_create
    if raised:
        core.PENDING_RAISES.append({'error': raised, 'via': 'CrackingSession.run', 'load': bool(load), 'limit': limit, 'lines_written': len(lines),
                                    'save_file': os.path.basename(save_filename)})
    return {'lines': lines, 'events': events, 'stderr': err.getvalue(), 'stdout_noise': out.getvalue(),
            'session': sess, 'quit': ctl.quit, 'popped': popped, 'saves': saves, 'error': raised}


def load_save(save_filename):
    import pcfg_guesser
    # the dictionary pcfg_guesser.main() hands to load_save always holds every option with its default
    info = {'name': 'PCFG Guesser', 'version': '4.7', 'author': 'x', 'contact': 'x', 'rule_name': 'Default', 'session_name': 'default_run',
            'load_session': True, 'limit': None, 'cracking_mode': 'true_prob_order',
            'supported_modes': ['true_prob_order', 'random_walk', 'honeywords'], 'skip_brute': False, 'skip_case': False, 'debug': False}
    with contextlib.redirect_stderr(io.StringIO()):
        cfg = pcfg_guesser.load_save(save_filename, info)
    return cfg, info


# --------------------------------------------------------------------------
# command line
# --------------------------------------------------------------------------
_CLI_SEEN = {}
_CLI_LOCK = threading.Lock()


def cli(repo_dir, script, args, stdin='open', timeout=120, input_text=None, on_timeout='raise'):
    """Run a repo script from a scratch copy.  stdin: 'open' (pipe kept open until exit), 'eof' (empty
    pipe), 'devnull', 'closed', 'text' (input_text then kept open).  Exit code is not reported as a
    signal (daemon-thread shutdown quirk)."""
    env = dict(os.environ)
    env['PYTHONDONTWRITEBYTECODE'] = '1'
    # every command line gets its own string-hash seed (a function of its arguments: reproducible, but two different
    # invocations - a limited and an unlimited run, a quit and its --load - never share one), and the tool's standard
    # output is block-buffered as it is for a user who pipes it into a cracker (the sandbox exports PYTHONUNBUFFERED)
    import zlib
    key_ = script + ' ' + ' '.join(map(str, args))
    with _CLI_LOCK:
        nth_ = _CLI_SEEN[key_] = _CLI_SEEN.get(key_, 0) + 1          # the n-th time this very command line is run
    env['PYTHONHASHSEED'] = str((zlib.crc32(key_.encode('utf-8', 'replace')) + 7919 * nth_) % 4000000 + 1)
    env.pop('PYTHONUNBUFFERED', None)
    env['PYTHONIOENCODING'] = 'utf-8'
    cmd = [core.PY, os.path.join(repo_dir, script)] + list(args)
    kw = dict(cwd=repo_dir, env=env, stdout=subprocess.PIPE, stderr=subprocess.PIPE)
    pre = None
    if stdin in ('open', 'text'):
        kw['stdin'] = subprocess.PIPE
    elif stdin == 'eof':
        kw['stdin'] = subprocess.PIPE
    elif stdin == 'devnull':
        kw['stdin'] = subprocess.DEVNULL
    elif stdin == 'closed':
        def pre():
            os.close(0)
        kw['preexec_fn'] = pre
    p = subprocess.Popen(cmd, **kw)
    if stdin == 'eof':
        p.stdin.close()
    elif stdin == 'text' and input_text:
        p.stdin.write(input_text.encode())
        p.stdin.flush()
    out_chunks, err_chunks = [], []

    def rd(f, acc):
        acc.append(f.read())

    t1 = threading.Thread(target=rd, args=(p.stdout, out_chunks))
    t2 = threading.Thread(target=rd, args=(p.stderr, err_chunks))
    t1.start()
    t2.start()
    try:
        p.wait(timeout=timeout)
    except subprocess.TimeoutExpired:
        p.kill()
        p.wait()
        t1.join()
        t2.join()
        if on_timeout == 'return':          # the caller asked whether the tool ends at all
            return out_chunks[0], err_chunks[0], None
        raise core.MachineryError('CLI timeout: %s' % ' '.join(cmd))
    t1.join()
    t2.join()
    if stdin in ('open', 'text'):
        try:
            p.stdin.close()
        except Exception:
            pass
    return out_chunks[0], err_chunks[0], p.returncode


def stdout_lines(raw):
    """stdout bytes -> list of lines as the consumer (a password cracker reading lines) sees them"""
    text = raw.decode('utf-8', errors='surrogateescape')
    if text == '':
        return []
    lines = text.split('\n')
    if lines[-1] == '':
        lines.pop()
    return lines
