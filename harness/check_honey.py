"""C16: honeywords are drawn from the grammar with the grammar's probabilities.
Model: spec/Honey.tla; verdict: spec/TrHoney.tla (walk, run) and spec/TrExpand.tla (honey)."""
import contextlib
import io
import json
import os
import random
import time
import types
from concurrent.futures import ThreadPoolExecutor

from . import core, ptq, expand, rulesets, session

D = 16
R = D * 64


def mc_stage(tier):
    mod = os.path.join(core.SPEC, 'MC_Honey.tla')
    cfg = os.path.join(core.SPEC, 'MC_Honey.cfg' if tier == 'quick' else 'MC_Honey_thorough.cfg')
    r = core.tlc_must_pass(mod, cfg, 'Honey', timeout=1800)
    mod2 = os.path.join(core.SPEC, 'MC_HoneyWalk.tla')
    cfg2 = os.path.join(core.SPEC, 'MC_HoneyWalk.cfg' if tier == 'quick' else 'MC_HoneyWalk_thorough.cfg')
    r2 = core.tlc_must_pass(mod2, cfg2, 'HoneyWalk', timeout=3000)
    # the session loop: ends for every ruleset with FixEmpty (tree after fix 366e378), and must NOT end for the pinned loop
    r3 = core.tlc_must_pass(os.path.join(core.SPEC, 'HoneySession.tla'), os.path.join(core.SPEC, 'MC_HoneySession.cfg'), 'HoneySession', timeout=600)
    r4 = core.tlc(os.path.join(core.SPEC, 'HoneySession.tla'), os.path.join(core.SPEC, 'MC_HoneySession_pinned.cfg'), timeout=600)
    if not r4.violated:
        raise core.MachineryError('HoneySession.tla: the pinned loop (FixEmpty = FALSE) should violate Terminates')
    session_mc = {'cfg': 'MC_HoneySession.cfg', 'states': r3.distinct, 'properties': ['Terminates', 'ExactlyN', 'NeverMore'],
                  'pinned_loop_violates': r4.violated}
    # symbolic strengthening (Apalache / SMT): the same invariant for every list of <= 8 entries with ARBITRARY integer masses,
    # denominator and resolution; an 'Error' outcome is a counterexample on the model
    apa = [core.apalache(os.path.join(core.SPEC, 'HoneyApa.tla'), inv) for inv in ('WalkIsOwnerA', 'OwnerUniqueA')]
    for a in apa:
        if a['outcome'] == 'Error':
            raise core.MachineryError('Apalache found a counterexample to %s on HoneyApa.tla (model-level)' % a.get('invariant'))
    return {'apalache': apa, 'session_loop': session_mc, 'cfg': os.path.basename(cfg), 'states': r.distinct + r2.distinct, 'transitions': r.generated + r2.generated,
            'wall_s': round(r.wall + r2.wall, 1),
            'HoneyWalk': {'cfg': os.path.basename(cfg2), 'states': r2.distinct, 'transitions': r2.generated}}


def split_mass(rng, total, kmax):
    """entries [w, n] with strictly decreasing w and sum(w*n) = total"""
    for _ in range(1000):
        k = rng.randint(1, kmax)
        ws = sorted(rng.sample(range(1, total + 1), k), reverse=True)
        ns = [rng.randint(1, 3) for _ in ws]
        if sum(w * n for w, n in zip(ws, ns)) == total:
            return [[w, n] for w, n in zip(ws, ns)]
    return [[total, 1]]


def make_ruleset(rng, path):
    lists = {}
    terminals = {}
    vals = {'A2': ['ab', 'cd', 'ef', 'gh', 'ij', 'kl', 'mn', 'op', 'qr'], 'C2': ['LL', 'UL', 'LU', 'UU'],
            'D1': list('0123456789'), 'O1': list(' !@#$%^&*'),        # a blank is a symbol like any other ('tiger lily' trains O1 = ' ')
            'A3': ['cat', 'dog', 'fox', 'owl', 'pig', 'rat', 'bat', 'ant', 'bee']}
    for t in ('A2', 'C2', 'D1', 'O1', 'A3'):
        kmax = 2 if t == 'C2' else 3
        while True:
            ls = split_mass(rng, D, kmax)
            if sum(n for _, n in ls) <= len(vals[t]):
                break
        lists[t] = ls
        items = []
        pool = list(vals[t])
        for w, n in ls:
            for _ in range(n):
                items.append((pool.pop(0), w / D))
        terminals[t] = items
    terminals['C3'] = [('LLL', 0.5), ('ULL', 0.5)]
    lists['C3'] = [[8, 2]]
    structs = rng.sample(['A2', 'D1', 'A2D1', 'O1A2', 'D1O1', 'A3', 'A3D1', 'M'], rng.randint(1, 3))
    # always one structure in which a type occurs twice (slots share a list but have their own draw)
    structs.append(rng.choice(['D1O1D1', 'A2D1A2', 'D1D1', 'O1D1O1', 'A2A2', 'A3D1A3']))
    rng.shuffle(structs)
    while True:
        ws = sorted((rng.randint(1, D) for _ in structs), reverse=True)
        if sum(ws) == D and len(set(ws)) == len(ws):
            break
    base = list(zip(structs, [w / D for w in ws]))
    rulesets.write_ruleset(path, terminals, base, omen_prob=[(1, 0.5), (2, 0.25)], omen_keyspace=[(1, 3), (2, 3)])
    return {'lists': lists, 'base': [[s, w] for s, w in zip(structs, ws)], 'terminals': terminals}


def lang_of_files(desc):
    """the non-Markov language spelled out by the rule files as written (independent of the guesser's loader)"""
    import itertools
    import re
    lang = set()
    T = desc['terminals']
    for struct, _ in desc['base']:
        if struct == 'M':
            continue
        slots = []
        for m in re.finditer(r'([A-Z])([0-9]*)', struct):
            t = m.group(0)
            if m.group(1) == 'A':
                slots.append([''.join(c.upper() if k == 'U' else c for c, k in zip(w, mask))
                              for w, _ in T[t] for mask, _ in T['C' + m.group(2)]])
            else:
                slots.append([v for v, _ in T[t]])
        lang.update(''.join(x) for x in itertools.product(*slots))
    return lang


def reps_of(struct):
    import re
    out = []
    for m in re.finditer(r'([A-Z])([0-9]*)', struct):
        out.append(m.group(0))
        if m.group(1) == 'A':
            out.append('C' + m.group(2))
    return out


class Script:
    def __init__(self, draws, choices=None):
        self.draws = list(draws)
        self.choices = list(choices or [])
        self.used = 0

    def random(self):
        self.used += 1
        return self.draws.pop(0) if self.draws else 0.5

    def choice(self, seq):
        c = self.choices.pop(0) if self.choices else 0
        return seq[c % len(seq)]

    def seed(self, *a):
        pass

    def randint(self, a, b):
        return a


def scripted(pcfg_module, script):
    real = pcfg_module.random
    pcfg_module.random = script
    return real


def breakpoints(ls):
    cum = 0
    pts = {0, 1, R // 2, R - 1}
    for w, n in ls:
        cum += w * n
        t = cum * R // D
        pts.update({t - 1, t, t + 1})
        pts.add(t - (w * n * R // D) // 2)
    return sorted(p for p in pts if 0 <= p < R)


def main(pid, tier, seed):
    import lib_guesser.pcfg_grammar as pg
    t0 = time.time()
    rng = random.Random(seed)
    verdict = core.Verdict(pid)
    mc = mc_stage(tier)
    work = core.scratch('honey')
    wtraces, etraces, meta, strings = [], [], {}, []
    tid = 0
    n_rules = 6 if tier == 'quick' else 200
    cli_dirs = []
    for k in range(n_rules):
        d = os.path.join(work, 'r%d' % k)
        desc = make_ruleset(rng, d)
        pcfg = ptq.load_pcfg(d)
        base_list = [[w, 1] for _, w in desc['base']]
        order = [s for s, _ in desc['base']]
        # ---- walks: sweep the breakpoints of the structure list and of every position ----
        for si, (struct, w) in enumerate(desc['base']):
            reps = reps_of(struct)
            poslists = [desc['lists'].get(t, [[D, 1]]) if t != 'M' else [[8, 1], [4, 1]] for t in reps]
            # a draw that selects this structure: midpoint of its interval
            lo = sum(x for _, x in desc['base'][:si])
            t_struct = (2 * lo + w) * R // (2 * D)
            sweeps = [('base', None, bp) for bp in breakpoints(base_list)]
            if struct != 'M':
                for p, ls in enumerate(poslists):
                    sweeps += [('pos', p, bp) for bp in breakpoints(ls)]
            if struct != 'M':
                # joint sweeps: every position at a breakpoint of its own list at once
                for _ in range(12):
                    sweeps.append(('joint', None, [rng.choice(breakpoints(ls)) for ls in poslists]))
            for what, p, bp in sweeps:
                if what == 'base' and si != 0:
                    continue        # the structure list is swept once
                draws_t = [t_struct] + [ls[0][0] * ls[0][1] * R // (2 * D) for ls in poslists]
                if what == 'base':
                    draws_t[0] = bp
                elif what == 'joint':
                    draws_t[1:] = bp
                else:
                    draws_t[p + 1] = bp
                sc = Script([t / R for t in draws_t])
                real = scripted(pg, sc)
                try:
                    pt_item = pcfg.random_walk()
                    err = None
                except Exception as ex:
                    pt_item, err = None, repr(ex)
                finally:
                    pg.random = real
                if pt_item is None:
                    chosen = [0]
                    cstruct = None
                else:
                    cstruct = ''.join(t for t, _ in pt_item['pt'] if t[0] != 'C')
                    chosen = [order.index(cstruct) + 1 if cstruct in order else 0] + [i + 1 for _, i in pt_item['pt']]
                # positions of the structure the P-layer says must be chosen
                tid += 1
                # the lists of the positions refer to the structure owning draw 1; the harness supplies the lists of
                # every structure and TLC picks (Owner) - keep it simple: supply the lists of the structure actually
                # owning the draw according to the base list, computed by TLC in clause 1; for clause 2 we pass the
                # lists of the chosen structure when clause 1 holds
                want_struct = cstruct if cstruct in order else struct
                wl = [desc['lists'].get(t, [[D, 1]]) if t != 'M' else [[8, 1], [4, 1]] for t in reps_of(want_struct)]
                if want_struct == 'M':
                    # the Markov level list is not normalised to D in these rulesets: position clause not applicable
                    wl = []
                    chosen = chosen[:1]
                wtraces.append({'tid': tid, 'kind': 'walk', 'D': D, 'R': R,
                                'base': [{'w': a, 'n': b} for a, b in base_list],
                                'pos': [[{'w': a, 'n': b} for a, b in ls] for ls in wl],
                                'draws': draws_t[:1 + len(wl)] if len(draws_t) >= 1 + len(wl) else draws_t + [R // 2] * (1 + len(wl) - len(draws_t)),
                                'chosen': chosen})
                meta[tid] = {'ruleset': desc['base'], 'sweep': [what, p, bp], 'draws': draws_t, 'chosen': chosen, 'error': err,
                             'lists': {t: desc['lists'].get(t) for t in reps_of(want_struct)}}
        # ---- the same walk under --skip_brute: the Markov structure is gone and the others are rescaled by 1 / (1 - P(M)),
        # ---- wherever the Markov line stands in the file: structure i owns (Cum(i-1), Cum(i)] / (D - w_M)
        wm = sum(w for s_, w in desc['base'] if s_ == 'M')
        nonm = [(s_, w) for s_, w in desc['base'] if s_ != 'M']
        if wm and nonm:
            pcfg_sb = ptq.load_pcfg(d, skip_brute=True)
            Dp = D - wm
            cum = 0
            pts = set()
            for s_, w in nonm:
                lo, cum = cum, cum + w
                for x in (lo * R // Dp + 2, (2 * lo + w) * R // (2 * Dp), cum * R // Dp - 2):
                    if 0 <= x < R:
                        pts.add(x)
            order_sb = [s_ for s_, _ in nonm]
            for t_ in sorted(pts):
                sc = Script([t_ / R] + [0.0] * 8)
                real = scripted(pg, sc)
                try:
                    pt_item = pcfg_sb.random_walk()
                    err = None
                except Exception as ex:
                    pt_item, err = None, repr(ex)
                finally:
                    pg.random = real
                cstruct = ''.join(t for t, _ in pt_item['pt'] if t[0] != 'C') if pt_item and pt_item['pt'] else None
                tid += 1
                wtraces.append({'tid': tid, 'kind': 'walk', 'D': Dp, 'R': R, 'base': [{'w': w, 'n': 1} for _, w in nonm], 'pos': [],
                                'draws': [t_], 'chosen': [order_sb.index(cstruct) + 1 if cstruct in order_sb else 0]})
                meta[tid] = {'ruleset': desc['base'], 'sweep': ['base under --skip_brute', None, t_], 'draws': [t_],
                             'chosen': cstruct, 'error': err, 'lists': {}}
        # ---- words: scripted in-group choices ----
        fileprobs = expand.file_prob_ranks(d, pcfg)
        for b, pt in expand.all_pts(pcfg):
            if pt[0][0] == 'M':
                continue
            groups = expand.pt_groups(pcfg, pt, d, fileprobs)
            sizes = [len(g['v']) for g in groups]
            combos = [[rng.randrange(n) for n in sizes] for _ in range(3)] + [[0] * len(sizes), [n - 1 for n in sizes]]
            for ch in combos:
                sc = Script([], choices=list(ch))
                real = scripted(pg, sc)
                lines = []
                pcfg.print_guess = lines.append
                try:
                    n = pcfg.create_guesses(pt, is_honeyword=True)
                finally:
                    pg.random = real
                for g, (t, i) in zip(groups, pt):
                    if g['k'] == 'plain':
                        strings.extend(pcfg.grammar[t][i]['values'])
                strings.extend(lines)
                tid += 1
                etraces.append({'tid': tid, 'kind': 'honey', 'groups': groups, 'ch': [c + 1 for c in ch],
                                'line': expand.cps(lines[0]) if len(lines) == 1 else [0]})
                meta[tid] = {'pt': pt, 'choices': ch, 'lines': lines, 'count': n}
        cli_dirs.append((d, desc))

    # ---- whole sessions ----
    from lib_guesser.honeyword_session import HoneywordSession
    runs = []
    for d, desc in cli_dirs:
        lang = lang_of_files(desc)
        for mode in ('honeywords', 'random_walk'):
            for N in (1, 7, 40):
                outs = []
                for rep in range(2):
                    pc = ptq.load_pcfg(d)
                    lines = []
                    pc.print_guess = lines.append
                    hs = HoneywordSession(pc, mode)
                    with contextlib.redirect_stderr(io.StringIO()):
                        hs.run(limit=N)
                    outs.append(lines)
                ids = {}
                I = lambda x: ids.setdefault(x, len(ids) + 1)
                tid += 1
                wtraces.append({'tid': tid, 'kind': 'run', 'n': N, 'lines': [I(x) for x in outs[0]],
                                'lines2': [I(x) for x in (outs[1] if mode == 'random_walk' else outs[0])],
                                'inlang': [x in lang for x in outs[0]], 'markov': [False for x in outs[0]], 'ended': True})
                meta[tid] = {'mode': mode, 'N': N, 'got': len(outs[0]), 'ruleset': desc['base'], 'via': 'HoneywordSession.run'}
    # a ruleset that is almost all Markov (low coverage): nearly every walk ends in the Markov structure and yields nothing,
    # the session must keep drawing until it HAS N words (HoneySession.tla: ExactlyN under fairness of the draws)
    mheavy = os.path.join(work, 'mheavy')
    rulesets.write_ruleset(mheavy, {'D1': [('1', 0.5), ('2', 0.5)]}, [('M', 0.96875), ('D1', 0.03125)], omen_prob=[(1, 0.5), (2, 0.25)],
                           omen_keyspace=[(1, 3), (2, 3)])
    for mode in ('honeywords', 'random_walk'):
        for N in (60, 150):
            pc = ptq.load_pcfg(mheavy)
            lines = []
            pc.print_guess = lines.append
            hs = HoneywordSession(pc, mode)
            with contextlib.redirect_stderr(io.StringIO()):
                hs.run(limit=N)
            ids = {}
            I = lambda x: ids.setdefault(x, len(ids) + 1)
            tid += 1
            wtraces.append({'tid': tid, 'kind': 'run', 'n': N, 'lines': [I(x) for x in lines], 'lines2': [I(x) for x in lines],
                            'inlang': [x in ('1', '2') for x in lines], 'markov': [False for x in lines], 'ended': True})
            meta[tid] = {'mode': mode, 'N': N, 'got': len(lines), 'ruleset': [['M', 0.96875], ['D1', 0.03125]], 'via': 'HoneywordSession.run',
                         'check': 'almost every walk ends in the Markov structure'}
    # command line
    rcopy = core.repo_copy('cli')
    jobs = []
    for k, (d, desc) in enumerate(cli_dirs[:3 if tier == 'quick' else 12]):
        os.symlink(d, os.path.join(rcopy, 'Rules', 'h%d' % k))
        for mode in ('honeywords', 'random_walk'):
            jobs.append((k, mode, 25, desc))
            if k == 0:
                jobs.append((k, mode, 1, desc))          # the smallest legal limit, and the next one
                jobs.append((k, mode, 2, desc))

    # the honeyword modes have no session to restore: --session / --load must not change what is drawn - neither when the
    # named session does not exist nor when an unrelated probability-order session (--all_lower) left its save file there
    session.cli(rcopy, 'pcfg_guesser.py', ['-r', 'h0', '--all_lower', '-s', 'leftover', '-n', '3'], stdin='open')
    for mode in ('honeywords', 'random_walk'):
        jobs.append((0, mode, 25, cli_dirs[0][1], ['-s', 'nosuchsession', '--load']))
        jobs.append((0, mode, 25, cli_dirs[0][1], ['-s', 'leftover', '--load']))

    # a ruleset whose rule files list one value twice inside a tied group (files merged by hand): what is drawn must still not depend
    # on the process that draws it
    dupd = os.path.join(work, 'dups')
    rulesets.write_ruleset(dupd, {'A3': [('cat', 0.5), ('dog', 0.1), ('pig', 0.1), ('dog', 0.1), ('owl', 0.1), ('bee', 0.1)],
                                  'C3': [('LLL', 0.5), ('ULL', 0.25), ('LLU', 0.25)],
                                  'D2': [('12', 0.6), ('22', 0.1), ('07', 0.1), ('22', 0.1), ('99', 0.1)]},
                           [('A3D2', 0.5), ('D2', 0.3), ('M', 0.2)], omen_prob=[(1, 0.5), (2, 0.25)], omen_keyspace=[(1, 3), (2, 3)])
    os.symlink(dupd, os.path.join(rcopy, 'Rules', 'hdup'))
    dup_desc = {'base': [['A3D2', 8], ['D2', 5], ['M', 3]], 'terminals': {'A3': [('cat', 0), ('dog', 0), ('pig', 0), ('owl', 0), ('bee', 0)],
                'C3': [('LLL', 0), ('ULL', 0), ('LLU', 0)], 'D2': [('12', 0), ('22', 0), ('07', 0), ('99', 0)]}}
    jobs.append(('dup', 'random_walk', 60, dup_desc))
    jobs.append(('dup', 'random_walk', 61, dup_desc))

    def runcli(job):
        k, mode, N, desc = job[:4]
        extra = job[4] if len(job) > 4 else []
        outs = []
        for rep in range(2):
            # the second run of a pair is always the plain command line (the reference a random walk must reproduce)
            out, err, code = session.cli(rcopy, 'pcfg_guesser.py', ['-r', 'h%s' % k, '-m', mode, '-n', str(N)] + (extra if rep == 0 else []),
                                         stdin='open')
            outs.append(session.stdout_lines(out))
        return outs
    with ThreadPoolExecutor(8) as ex:
        res = list(ex.map(runcli, jobs))
    for job, outs in zip(jobs, res):
        k, mode, N, desc = job[:4]
        lang = lang_of_files(desc)
        ids = {}
        I = lambda x: ids.setdefault(x, len(ids) + 1)
        tid += 1
        wtraces.append({'tid': tid, 'kind': 'run', 'n': N, 'lines': [I(x) for x in outs[0]],
                        'lines2': [I(x) for x in (outs[1] if mode == 'random_walk' else outs[0])],
                        'inlang': [x in lang for x in outs[0]], 'markov': [False for x in outs[0]], 'ended': True})
        meta[tid] = {'mode': mode, 'N': N, 'got': len(outs[0]), 'ruleset': desc['base'], 'via': 'pcfg_guesser.py subprocess',
                     'extra_args': job[4] if len(job) > 4 else [],
                     'not_in_the_language_of_the_files': [x for x in outs[0] if x not in lang][:5]}
    # a ruleset whose ONLY base structure is the Markov one (what the trainer writes for coverage 0): nothing can be drawn,
    # the session must end (HoneySession.tla: Terminates); --limit N then yields no word
    monly = os.path.join(work, 'monly')
    rulesets.write_ruleset(monly, {'D1': [('1', 1.0)]}, [('M', 1.0)], omen_prob=[(1, 0.5), (2, 0.25)], omen_keyspace=[(1, 3), (2, 3)])
    os.symlink(monly, os.path.join(rcopy, 'Rules', 'monly'))

    def run_monly(mode):
        out, err, code = session.cli(rcopy, 'pcfg_guesser.py', ['-r', 'monly', '-m', mode, '-n', '3'], stdin='open', timeout=20,
                                     on_timeout='return')
        return mode, session.stdout_lines(out), code
    with ThreadPoolExecutor(2) as ex:
        for mode, lines_, code in ex.map(run_monly, ('honeywords', 'random_walk')):
            tid += 1
            wtraces.append({'tid': tid, 'kind': 'run', 'n': 0, 'lines': [1 for _ in lines_], 'lines2': [1 for _ in lines_],
                            'inlang': [False for _ in lines_], 'markov': [True for _ in lines_], 'ended': code is not None})
            meta[tid] = {'mode': mode, 'N': 3, 'got': len(lines_), 'ruleset': [['M', 1.0]], 'via': 'pcfg_guesser.py subprocess',
                         'check': 'Markov-only ruleset', 'ended_within_20_s': code is not None}

    v1, st1 = core.validate_traces('TrHoney.tla', wtraces, chunk=400, timeout=600)
    upfile = os.path.join(core.scratch('up'), 'up.json')
    with open(upfile, 'w') as f:
        json.dump(expand.up_table(strings), f)
    v2, st2 = core.validate_traces('TrExpand.tla', etraces, env={'UP_FILE': upfile}, chunk=200, timeout=600)
    for t in wtraces:
        v = v1[t['tid']]
        if v[0] != 'ACCEPT':
            m = meta[t['tid']]
            failing = list(v[1]) if isinstance(v[1], (tuple, list)) else [v[1]]
            verdict.violation(dict(m, clause='+'.join(failing), failing=failing), 'clauses %s; %s' % (failing, core.short(m, 300)))
    for t in etraces:
        v = v2[t['tid']]
        if v[0] != 'ACCEPT':
            m = meta[t['tid']]
            verdict.violation(dict(m, clause=v[2]), 'clause %s; %s' % (v[2], core.short(m, 300)))
    def corrupt(t):
        if t['kind'] == 'walk' and len(t['base']) >= 2:
            t['chosen'][0] = 1 + (t['chosen'][0] % len(t['base']))      # a different structure than the owner of the draw
            return t
        return None
    accepted = [t for t in wtraces if v1[t['tid']][0] == 'ACCEPT']
    selftest = core.binding_selftest('TrHoney.tla', accepted, corrupt)
    rc, n_viol, n_known = verdict.finish()
    alltr = wtraces + etraces
    distinct = len({json.dumps({k: v for k, v in t.items() if k != 'tid'}, sort_keys=True) for t in alltr})
    s = wtraces[min(10, len(wtraces) - 1)]
    cov = {'states': mc['states'], 'transitions': mc['transitions'],
           'traces_validated_against_impl': len(alltr),
           'samples': [{'meta': meta[s['tid']]}], 'model_checking': mc,
           'evaluations': len(alltr), 'distinct_nontrivial': distinct,
           'rule': 'walk trace = one real random_walk() with scripted uniforms placed just below / at / just above every breakpoint and at '
                   'interval midpoints; honey trace = one real honeyword with scripted in-group choices; run trace = one whole session',
           'rulesets': n_rules, 'walks': sum(1 for t in wtraces if t['kind'] == 'walk'),
           'words': len(etraces), 'runs': sum(1 for t in wtraces if t['kind'] == 'run'),
           'trace_validation': {'TrHoney': st1, 'TrExpand': st2}, 'exhaustive': False, 'binding_selftest': selftest,
           'known_findings_reproduced': n_known, 'violation_histogram': verdict.histogram()}
    core.write_evidence(pid, tier, seed, 'model_checking', cov, time.time() - t0, violations=n_viol,
                        assumptions=['TLC', 'dyadic probabilities over denominator 16 so that float partial sums are exact and '
                                     'draws can sit exactly on breakpoints', 'random.random / random.choice replaced by a script in the '
                                     'pcfg_grammar module namespace', 'rulesets whose lists sum to 1'])
    return rc
