"""Small rulesets for session-level checks: strictly decreasing pre-terminal probabilities (no ties, so the
uninterrupted stream is one fixed sequence), a Markov structure whose levels fall at chosen positions."""
import itertools
import os
import random

from . import rulesets, ptq, expand, session, core


OMEN_MODELS = [
    None,   # rulesets.DEFAULT_OMEN: lengths 2..3, LN levels 0..1
    # lengths 2..5 on LN levels 0..3: a level >= 2 spans several lengths (cut/resume must move on to them)
    dict(ngram=2, alphabet=['a', 'b'], ip={'a': 0, 'b': 1}, cp={'aa': 0, 'ab': 1, 'ba': 1, 'bb': 2},
         ep={'a': 0, 'b': 0}, ln=[10, 0, 1, 2, 3]),
    dict(ngram=3, alphabet=['a', 'b'], ip={'aa': 0, 'ab': 1, 'ba': 2}, cp={'aaa': 0, 'aab': 1, 'aba': 0, 'baa': 1, 'abb': 2, 'bab': 1},
         ep={'aa': 0, 'ab': 0, 'ba': 0}, ln=[10, 10, 1, 0, 2]),
    # several initial n-grams on the SAME level (the position saved on a quit is an index into that level's list: the list must
    # come back in the same order in the process that resumes)
    dict(ngram=2, alphabet=['a', 'b', 'c', 'd', 'e'], ip={'a': 0, 'b': 0, 'c': 0, 'd': 1, 'e': 1},
         cp={'aa': 0, 'ab': 1, 'ba': 0, 'bc': 1, 'ca': 0, 'cd': 1, 'da': 0, 'ea': 0, 'eb': 1},
         ep={'a': 0, 'b': 0, 'c': 0, 'd': 0, 'e': 0}, ln=[10, 0, 1]),
]


def make(rng, path, with_m=True, m_last=False, omen_model=None, zero_level=False):
    for attempt in range(200):
        # groups of several equally probable values (a pre-terminal then holds several guesses per first transition: a status
        # request can land between them) - the pre-terminal probabilities stay distinct
        pd, pa = round(rng.uniform(0.3, 0.45), 6), round(rng.uniform(0.3, 0.45), 6)
        terms = {
            'D1': [('1', pd), ('3', pd), ('2', round(rng.uniform(0.05, 0.2), 6))],
            'O1': [('!', round(rng.uniform(0.5, 0.7), 6)), ('?', round(rng.uniform(0.05, 0.2), 6))],
            'A2': [('ab', pa), ('cd', pa)],
            'C2': [('LL', round(rng.uniform(0.6, 0.8), 6)), ('UL', round(rng.uniform(0.1, 0.3), 6))],
        }
        structs = rng.sample(['D1', 'O1', 'A2', 'A2D1', 'D1O1'], rng.randint(2, 3))
        ps = [round(rng.uniform(0.05, 0.5), 6) for _ in structs]
        base = list(zip(structs, ps))
        omen_prob = []
        if with_m:
            base.append(('M', round(rng.uniform(0.2, 0.6), 6) if not m_last else 1e-6))
            omen_prob = [(1, round(rng.uniform(0.3, 0.9), 6)), (2, round(rng.uniform(0.01, 0.2), 6))]
            if rng.random() < 0.6:
                omen_prob.append((3, round(rng.uniform(0.001, 0.009), 6)))
            if rng.random() < 0.4:
                omen_prob.insert(0, (0, round(rng.uniform(0.9, 1.0), 6)))
            if zero_level:
                # a level no training password reached: the trainer lists it with probability 0.0; it is generated last
                omen_prob.append((4, 0.0))
        base.sort(key=lambda x: -x[1])
        rulesets.write_ruleset(path, terms, base, omen_prob=omen_prob, omen=(OMEN_MODELS[omen_model] if omen_model is not None else rng.choice(OMEN_MODELS)),
                               omen_keyspace=[(lv_, 2 * lv_ + 1) for lv_, _ in sorted(omen_prob)] or [(1, 3)], uuid='11111111-2222-3333-4444-%012d' % rng.randint(0, 10 ** 11))
        pcfg = ptq.load_pcfg(path)
        probs = [it['prob'] for it, _ in ptq.run_history(pcfg, [], with_queue=False)['sessions'][0]['ev']]
        if len(set(probs)) == len(probs) and len(probs) <= 16:   # (the number of pre-terminals; each may hold several guesses)
            return {'terminals': terms, 'base': base, 'omen_prob': omen_prob}
    raise core.MachineryError('could not build a tie-free ruleset')


def expected(path, flags=None, with_pts=False):
    """uninterrupted stream of the real code (in-process, fake keyboard thread that never quits):
    list of (pt_no, is_markov, guess, pt_prob)"""
    flags = flags or {}
    pcfg = ptq.load_pcfg(path, save_file=os.path.join(path, 'exp.sav'), **flags)
    r = session.run_session(pcfg, session.new_save_config(), os.path.join(path, 'exp.sav'))
    out = []
    ptno = 0
    probs = []
    cur_m = False
    prob_of = {}
    # probabilities of the pre-terminals in emission order (independent walk of the queue)
    pc2 = ptq.load_pcfg(path, **flags)
    evs = ptq.run_history(pc2, [], with_queue=False)['sessions'][0]['ev']
    k = 0
    pts = []
    for ev in r['events']:
        if ev[0] == 'pt':
            ptno += 1
            cur_m = ev[1][0][0] == 'M'
            prob_of[ptno] = evs[ptno - 1][0]['prob']
            pts.append({'kind': 'omen' if cur_m else 'plain', 'size': 0, 'prob': prob_of[ptno]})
        else:
            out.append((ptno, cur_m, ev[1], prob_of[ptno]))
            pts[-1]['size'] += 1
    if with_pts:
        return out, pts
    return out
