"""Core of the verification harness: scratch space, TLC runner, batched trace
validation, evidence files, known-findings matching and the verdict/exit protocol.

Everything here is stdlib-only and runs under /venv/bin/python.
"""
import atexit
import json
import os
import re
import shutil
import subprocess
import sys
import tempfile
import time

VERIF = os.path.dirname(os.path.dirname(os.path.abspath(__file__)))
REPO = os.environ.get('VERIF_REPO', '/repo')
SPEC = os.path.join(VERIF, 'spec')
PY = '/venv/bin/python'
TLA_CP = '/opt/veriftools/tla/tla2tools.jar:/opt/veriftools/tla/CommunityModules-deps.jar'
NCPU = os.cpu_count() or 4


class MachineryError(Exception):
    """The machinery itself failed (exit 2) - never a verdict about the code."""


# --------------------------------------------------------------------------
# scratch space
# --------------------------------------------------------------------------
_scratch_root = None


def scratch_root():
    global _scratch_root
    if _scratch_root is None:
        base = '/dev/shm' if os.path.isdir('/dev/shm') and os.access('/dev/shm', os.W_OK) \
            else os.environ.get('TMPDIR', tempfile.gettempdir())
        # scratch directories of runs that were killed (no atexit) are removed once they are older than the longest budget
        try:
            now = time.time()
            for n_ in os.listdir(base):
                if n_.startswith('verif-'):
                    p_ = os.path.join(base, n_)
                    if now - os.path.getmtime(p_) > 9 * 3600:
                        shutil.rmtree(p_, ignore_errors=True)
        except OSError:
            pass
        _scratch_root = tempfile.mkdtemp(prefix='verif-', dir=base)
        atexit.register(lambda: shutil.rmtree(_scratch_root, ignore_errors=True))
    return _scratch_root


def scratch(name):
    d = tempfile.mkdtemp(prefix=name + '-', dir=scratch_root())
    return d


def repo_copy(name='repo', with_rules=()):
    """rsync copy of REPO's working tree (no .git, no shipped Rules unless named)."""
    dst = scratch(name)
    cmd = ['rsync', '-a', '--exclude', '.git', '--exclude', '__pycache__',
           '--exclude', '*.sav', '--exclude', '*.omn']
    for r in with_rules:
        cmd += ['--include', 'Rules/%s/***' % r]
    cmd += ['--exclude', 'Rules/*', REPO + '/', dst + '/']
    subprocess.run(cmd, check=True)
    os.makedirs(os.path.join(dst, 'Rules'), exist_ok=True)
    return dst


def use_repo():
    """Make code from REPO's working tree importable in this interpreter."""
    sys.dont_write_bytecode = True
    if REPO not in sys.path:
        sys.path.insert(0, REPO)


# --------------------------------------------------------------------------
# TLC
# --------------------------------------------------------------------------
class TLCResult:
    def __init__(self, rc, out, wall):
        self.rc = rc
        self.out = out
        self.wall = wall
        self.generated = 0
        self.distinct = 0
        self.depth = 0
        m = None
        for m in re.finditer(r'(\d[\d,]*) states generated, (\d[\d,]*) distinct states found', out):
            pass
        if m:
            self.generated = int(m.group(1).replace(',', ''))
            self.distinct = int(m.group(2).replace(',', ''))
        m = re.search(r'depth of the complete state graph search is (\d+)', out)
        if m:
            self.depth = int(m.group(1))
        self.violated = re.findall(r'Error: Invariant (\S+) is violated', out)
        self.violated += re.findall(r'Error: Action property (\S+) is violated', out)
        if re.search(r'Error: Temporal properties were violated', out):
            self.violated.append('<temporal>')
        self.violated += re.findall(r'Error: Temporal property (\S+) was violated', out)
        if re.search(r'Error: Deadlock reached', out):
            self.violated.append('<deadlock>')
        self.finished = 'Model checking completed' in out or 'Finished in' in out
        self.errors = [l for l in out.splitlines() if l.startswith('Error:')]
        self.ok = (rc == 0 and not self.errors)

    def prints(self):
        """PrintT'ed tuples `<<"TAG", ...>>` as python lists (TLC wraps long values over several
        lines: collect until the brackets balance)."""
        res = []
        buf = None
        for line in self.out.splitlines():
            st = line.strip()
            if buf is None:
                if st.startswith('<<') and (st.startswith('<<"') or st.startswith('<< "')):
                    buf = st
                else:
                    continue
            else:
                buf += ' ' + st
            if _balanced(buf):
                try:
                    res.append(parse_tla_value(buf))
                except Exception:
                    pass
                buf = None
            elif len(buf) > 2000000:
                buf = None
        return res

    def coverage(self):
        """per-action counts from -coverage output: {action: (distinct, total)}"""
        cov = {}
        for m in re.finditer(r'<(\w+) line \d+, col \d+ to line \d+, col \d+ of module (\w+)>: (\d+):(\d+)', self.out):
            cov[m.group(1)] = (int(m.group(3)), int(m.group(4)))
        return cov


def _balanced(t):
    depth = 0
    instr = False
    i = 0
    while i < len(t):
        c = t[i]
        if instr:
            if c == '\\':
                i += 1
            elif c == '"':
                instr = False
        elif c == '"':
            instr = True
        elif t.startswith('<<', i):
            depth += 1
            i += 1
        elif t.startswith('>>', i):
            depth -= 1
            i += 1
        elif c in '{[(':
            depth += 1
        elif c in '}])':
            depth -= 1
        i += 1
    return depth == 0 and not instr


def tlc(module, cfg, workers=None, timeout=600, env=None, simulate=None, depth=None,
        coverage=False, extra=(), lib=None, deadlock=True, seed=None, dfs_queue=False):
    """Run TLC on spec `module` (path to .tla) with config `cfg` (path)."""
    meta = scratch('tlcmeta')
    jopts = ['-XX:+UseParallelGC', '-Xmx12g', '-Xss256m']
    libs = [SPEC] + ([lib] if lib else [])
    jopts.append('-DTLA-Library=' + os.pathsep.join(libs))
    if dfs_queue:
        jopts.append('-Dtlc2.tool.queue.IStateQueue=StateDeque')
    cmd = ['java'] + jopts + ['-cp', TLA_CP, 'tlc2.TLC', '-metadir', meta, '-noGenerateSpecTE',
                              '-config', cfg]
    cmd += ['-workers', str(workers if workers else NCPU)]
    if not deadlock:
        cmd += ['-deadlock']
    if simulate:
        cmd += ['-simulate', simulate]
    if depth:
        cmd += ['-depth', str(depth)]
    if seed is not None:
        cmd += ['-seed', str(seed)]
    if coverage:
        cmd += ['-coverage', '1']
    cmd += list(extra)
    cmd.append(module)
    e = dict(os.environ)
    e.pop('JAVA_TOOL_OPTIONS', None)
    if env:
        e.update({k: str(v) for k, v in env.items()})
    t0 = time.time()
    try:
        p = subprocess.run(cmd, cwd=os.path.dirname(module), env=e, stdout=subprocess.PIPE,
                           stderr=subprocess.STDOUT, timeout=timeout, text=True, errors='replace')
        rc, out = p.returncode, p.stdout
    except subprocess.TimeoutExpired as ex:
        rc, out = 124, (ex.stdout or b'').decode('utf-8', 'replace') if isinstance(ex.stdout, bytes) else (ex.stdout or '')
        out += '\nTIMEOUT after %ss\n' % timeout
    finally:
        shutil.rmtree(meta, ignore_errors=True)
    return TLCResult(rc, out, time.time() - t0)


def apalache(module, inv, init='Init', nxt='Next', cinit='CInit', length=0, timeout=600):
    """symbolic check with Apalache (apalache-mc, SMT): returns dict(outcome = 'NoError' | 'Error' | 'unavailable' | 'failed', ...).
    Used for unbounded-in-the-integers strengthening of invariants TLC checks on a small space; a missing / failing tool is
    reported as such in the evidence and never turns into a verdict."""
    exe = shutil.which('apalache-mc')
    if not exe:
        return {'outcome': 'unavailable'}
    out = scratch('apalache')
    t0 = time.time()
    try:
        p = subprocess.run([exe, 'check', '--init=' + init, '--next=' + nxt, '--inv=' + inv, '--cinit=' + cinit,
                            '--length=%d' % length, '--out-dir=' + out, os.path.basename(module)],
                           cwd=os.path.dirname(module), stdout=subprocess.PIPE, stderr=subprocess.STDOUT, text=True, timeout=timeout)
    except subprocess.TimeoutExpired:
        return {'outcome': 'failed', 'why': 'timeout'}
    finally:
        shutil.rmtree(out, ignore_errors=True)
    m = re.search(r'The outcome is: (\w+)', p.stdout)
    res = {'outcome': m.group(1) if m else 'failed', 'invariant': inv, 'wall_s': round(time.time() - t0, 1)}
    if res['outcome'] not in ('NoError', 'Error'):
        res['why'] = p.stdout[-300:]
    return res


def tlc_must_pass(module, cfg, what, **kw):
    r = tlc(module, cfg, **kw)
    if r.rc == 124:
        raise MachineryError('TLC timed out on %s' % what)
    if not r.ok:
        raise ModelViolation(what, r)
    return r


class ModelViolation(Exception):
    """TLC found an invariant violation in a *model* (no code involved)."""

    def __init__(self, what, result):
        Exception.__init__(self, '%s: %s' % (what, result.violated or result.errors[:3]))
        self.result = result
        self.what = what


def parse_tla_value(s):
    """Parse the subset of TLA+ values TLC prints: <<..>>, {..}, ints, strings, TRUE/FALSE, records."""
    pos = [0]

    def ws():
        while pos[0] < len(s) and s[pos[0]].isspace():
            pos[0] += 1

    def val():
        ws()
        if s.startswith('<<', pos[0]):
            pos[0] += 2
            items = []
            ws()
            if s.startswith('>>', pos[0]):
                pos[0] += 2
                return items
            while True:
                items.append(val())
                ws()
                if s.startswith('>>', pos[0]):
                    pos[0] += 2
                    return items
                assert s[pos[0]] == ',', s[pos[0]:pos[0] + 20]
                pos[0] += 1
        if s[pos[0]] == '{':
            pos[0] += 1
            items = []
            ws()
            if s[pos[0]] == '}':
                pos[0] += 1
                return {'set': items}
            while True:
                items.append(val())
                ws()
                if s[pos[0]] == '}':
                    pos[0] += 1
                    return {'set': items}
                assert s[pos[0]] == ','
                pos[0] += 1
        if s[pos[0]] == '[':
            pos[0] += 1
            rec = {}
            while True:
                ws()
                m = re.match(r'(\w+)\s*\|->', s[pos[0]:])
                assert m, s[pos[0]:pos[0] + 20]
                pos[0] += m.end()
                rec[m.group(1)] = val()
                ws()
                if s[pos[0]] == ']':
                    pos[0] += 1
                    return rec
                assert s[pos[0]] == ','
                pos[0] += 1
        if s[pos[0]] == '"':
            j = pos[0] + 1
            buf = []
            while s[j] != '"':
                if s[j] == '\\':
                    j += 1
                buf.append(s[j])
                j += 1
            pos[0] = j + 1
            return ''.join(buf)
        m = re.match(r'-?\d+', s[pos[0]:])
        if m:
            pos[0] += m.end()
            return int(m.group(0))
        m = re.match(r'TRUE|FALSE', s[pos[0]:])
        if m:
            pos[0] += m.end()
            return m.group(0) == 'TRUE'
        m = re.match(r'\w+', s[pos[0]:])
        if m:
            pos[0] += m.end()
            return m.group(0)
        raise ValueError(s[pos[0]:pos[0] + 30])

    v = val()
    ws()
    if pos[0] != len(s):
        raise ValueError('trailing: ' + s[pos[0]:pos[0] + 30])
    return v


# --------------------------------------------------------------------------
# batched trace validation
# --------------------------------------------------------------------------
def validate_traces(trace_module, traces, cfg=None, timeout=900, env=None, chunk=4000,
                    parallel=None):
    """Validate `traces` (list of JSON-able dicts, each with a unique int "tid") with the
    trace spec `trace_module` (file name inside SPEC).  The spec reads IOEnv.TRACE_FILE (ndjson),
    picks tid in Init and prints <<"ACCEPT", tid>> or <<"STUCK", tid, where...>>.
    Returns {tid: ('ACCEPT',) | ('STUCK', info...)}; a trace with no verdict line is a
    machinery failure.  Also returns TLC state counts."""
    module = os.path.join(SPEC, trace_module)
    cfg = cfg or module[:-4] + '.cfg'
    verdicts = {}
    stats = {'states': 0, 'transitions': 0, 'wall': 0.0, 'tlc_runs': 0}
    if not traces:
        return verdicts, stats
    chunks = [traces[i:i + chunk] for i in range(0, len(traces), chunk)]
    d = scratch('traces')

    def run_chunk(ci):
        path = os.path.join(d, 'tr%d.ndjson' % ci)
        with open(path, 'w') as f:
            for t in chunks[ci]:
                f.write(json.dumps(t, separators=(',', ':')) + '\n')
        e = {'TRACE_FILE': path}
        if env:
            e.update(env)
        return tlc(module, cfg, workers=1, timeout=timeout, env=e, deadlock=False)

    if parallel is None:
        parallel = min(len(chunks), max(1, NCPU // 2))
    if parallel > 1:
        from concurrent.futures import ThreadPoolExecutor
        with ThreadPoolExecutor(parallel) as ex:
            results = list(ex.map(run_chunk, range(len(chunks))))
    else:
        results = [run_chunk(i) for i in range(len(chunks))]
    for ci, r in enumerate(results):
        stats['states'] += r.distinct
        stats['transitions'] += r.generated
        stats['wall'] += r.wall
        stats['tlc_runs'] += 1
        if r.rc == 124:
            raise MachineryError('trace validation timed out (%s)' % trace_module)
        for p in r.prints():
            if p and p[0] == 'ACCEPT':
                verdicts.setdefault(p[1], ('ACCEPT',))
            elif p and p[0] == 'STUCK':
                # several STUCK lines can be printed for one tid (branching); keep the furthest
                old = verdicts.get(p[1])
                if old is None or (old[0] == 'STUCK' and _further(p[2:], old[1:])):
                    verdicts[p[1]] = ('STUCK',) + tuple(_hashable(x) for x in p[2:])
        # an ACCEPT anywhere wins over STUCK lines from other branches
        for p in r.prints():
            if p and p[0] == 'ACCEPT':
                verdicts[p[1]] = ('ACCEPT',)
        missing = [t['tid'] for t in chunks[ci] if t['tid'] not in verdicts]
        if missing or (r.errors and not r.violated):
            raise MachineryError('trace spec %s gave no verdict for tids %s\n%s'
                                 % (trace_module, missing[:5], r.out[-3000:]))
    shutil.rmtree(d, ignore_errors=True)
    return verdicts, stats


def binding_selftest(trace_module, traces, corrupt, env=None, n=6, timeout=300, cfg=None):
    """anti-vacuity: take up to n accepted traces, corrupt one recorded field in each (function `corrupt(trace)` returns a
    modified deep copy or None if it cannot corrupt that trace) and require the trace spec to reject every one.
    Returns {'corrupted': k, 'rejected': r}; r < k means the trace spec does not constrain that field."""
    import copy
    bad = []
    for t in traces:
        c = corrupt(copy.deepcopy(t))
        if c is not None:
            c['tid'] = len(bad) + 1
            bad.append(c)
        if len(bad) >= n:
            break
    if not bad:
        return {'corrupted': 0, 'rejected': 0}
    v, _ = validate_traces(trace_module, bad, env=env, timeout=timeout, chunk=max(1, len(bad)), cfg=cfg)
    rej = sum(1 for t in bad if v[t['tid']][0] != 'ACCEPT')
    if rej != len(bad):
        raise MachineryError('binding self-test: %s accepted %d of %d corrupted traces' % (trace_module, len(bad) - rej, len(bad)))
    return {'corrupted': len(bad), 'rejected': rej}


def _hashable(x):
    if isinstance(x, list):
        return tuple(_hashable(i) for i in x)
    if isinstance(x, dict):
        return tuple(sorted((k, _hashable(v)) for k, v in x.items()))
    return x


def _further(a, b):
    try:
        return a and b and isinstance(a[0], int) and isinstance(b[0], int) and a[0] > b[0]
    except Exception:
        return False


# --------------------------------------------------------------------------
# findings
# --------------------------------------------------------------------------
def load_findings():
    path = os.path.join(VERIF, 'known_findings.json')
    if not os.path.exists(path):
        return []
    with open(path) as f:
        return json.load(f)['findings']


PENDING_RAISES = []


class Verdict:
    """Collects violations of one property, matches them against open known findings,
    writes replay files, prints the protocol lines and decides the exit code."""

    def __init__(self, pid):
        self.pid = pid
        self.violations = []   # (witness dict, description)
        self.findings = [f for f in load_findings() if f['property'] == pid]
        self.matchers = {}     # finding key -> predicate(witness) -> bool

    def matcher(self, key, fn):
        self.matchers[key] = fn

    def violation(self, witness, description):
        self.violations.append((witness, description))

    def histogram(self):
        h = {}
        for w, _ in self.violations:
            k = '%s|%s' % (w.get('clause'), w.get('check', w.get('kind', '')))
            h[k] = h.get(k, 0) + 1
        return h

    def finish(self):
        """returns (exit_code, n_unlisted, n_known)"""
        # sessions of the code under test that died with an exception (recorded by the session drivers): the stream was cut
        # short / the state was not saved - a violation of whichever property the running check decides
        while PENDING_RAISES:
            w = PENDING_RAISES.pop(0)
            self.violation(dict(w, clause=w.get('clause', 'code_under_test_raised'), check='session raised'),
                           'the session raised %s; %s' % (w.get('error'), short({k: v for k, v in w.items() if k != 'error'}, 200)))
        known = {}
        unlisted = []
        for w, desc in self.violations:
            hit = None
            for f in self.findings:
                if f.get('status') != 'open':
                    continue
                fn = self.matchers.get(f['key'])
                if fn is not None and fn(w):
                    hit = f
                    break
            if hit is None:
                unlisted.append((w, desc))
            else:
                known.setdefault(hit['key'], []).append((w, desc))
        for key, lst in known.items():
            f = [f for f in self.findings if f['key'] == key][0]
            print('KNOWN-FINDING: property=%s %s [%s; %d witness(es) this run, e.g. %s]'
                  % (self.pid, f['description'], key, len(lst), lst[0][1][:160]))
        rc = 0
        if unlisted:
            rdir = os.path.join(VERIF, 'replays', self.pid)
            os.makedirs(rdir, exist_ok=True)
            shown = 0
            for i, (w, desc) in enumerate(unlisted[:20]):
                path = os.path.join(rdir, 'violation_%d.json' % i)
                with open(path, 'w') as fh:
                    json.dump({'property': self.pid, 'description': desc, 'witness': w}, fh,
                              indent=1, default=str)
                if shown < 5:
                    print('VIOLATION property=%s replay=%s   # %s' % (self.pid, path, desc[:300]))
                    shown += 1
            rc = 1
        return rc, len(unlisted), sum(len(v) for v in known.values())


# --------------------------------------------------------------------------
# evidence
# --------------------------------------------------------------------------
def write_evidence(pid, tier, seed, level, coverage, wall_s, violations=0, assumptions=()):
    ev = {
        'property_id': pid,
        'tier': tier,
        'seed': int(seed),
        'level': level,
        'coverage': coverage,
        'assumptions': list(assumptions),
        'wall_s': round(wall_s, 2),
        'violations': int(violations),
    }
    os.makedirs(os.path.join(VERIF, 'evidence'), exist_ok=True)
    path = os.path.join(VERIF, 'evidence', pid + '.json')
    if os.environ.get('VERIF_NOEVIDENCE'):
        path = os.path.join(scratch_root(), pid + '.json')
    tmp = path + '.tmp'
    with open(tmp, 'w') as f:
        json.dump(ev, f, indent=1, default=str)
    os.replace(tmp, path)
    return path


def short(x, n=400):
    s = json.dumps(x, default=str, ensure_ascii=False)
    return s if len(s) <= n else s[:n] + '...'


def run_py(code_or_args, env=None, timeout=600, cwd=None, input=None):
    """Run a fresh repo-venv interpreter (used for CLI tools and isolation)."""
    e = dict(os.environ)
    e['PYTHONDONTWRITEBYTECODE'] = '1'
    e.setdefault('PYTHONHASHSEED', '0')
    if env:
        e.update(env)
    return subprocess.run([PY] + list(code_or_args), env=e, cwd=cwd, timeout=timeout,
                          stdout=subprocess.PIPE, stderr=subprocess.PIPE, input=input)
