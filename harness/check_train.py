"""C06 (saved grammar = relative-frequency model, coverage arithmetic, determinism) and
C03 (every supported training password is reproduced; probabilities sum to 1).
Model: spec/Train.tla; verdict: spec/TrTrain.tla."""
import hashlib
import json
import os
import random
import re
import time
from fractions import Fraction

from . import core, train, rulesets, ptq, expand, segment

POOLS = {
    'ascii': dict(words=['pass', 'word', 'love', 'monkey', 'dragon'], digits=['1', '12', '123', '2019', '007', '19871987'],
                  syms=['!', '!!', ' ', '$%'], walks=['qwer1234', '1qaz2wsx', 'asdf', '1qaz', 'zaq1'], ctx=['#1', '<3', 'No.1'],
                  emails=['bob@aol.com', 'a.b@gmail.com'], sites=['www.google.com', 'example.org']),
    'cyrillic': dict(words=['пароль', 'любовь', 'привет', 'солнце'], digits=['1', '12', '2020'], syms=['!', ' '],
                     walks=['йцук12', '1йфя', 'яфй1'], ctx=['#1'], emails=[], sites=[]),
    'latin1': dict(words=['été', 'straße', 'señor', 'über'], digits=['1', '99'], syms=['!', '§', ' '], walks=[], ctx=['<3'],
                   emails=[], sites=[]),
    'greek': dict(words=['αγάπη', 'κωδικός', 'ήλιος'], digits=['7', '21'], syms=['!', ' '], walks=[], ctx=[], emails=[], sites=[]),
    'nonbmp': dict(words=['pass', 'word'], digits=['1'], syms=['\U0001F600', '!\U0001F601'], walks=[], ctx=['<3'], emails=[], sites=[]),
}
ENC_OF = {'ascii': ['utf-8', 'iso-8859-1', 'cp1251', 'utf-16'], 'cyrillic': ['utf-8', 'cp1251', 'utf-16'],
          'latin1': ['utf-8', 'iso-8859-1', 'utf-16'], 'greek': ['utf-8', 'utf-16'], 'nonbmp': ['utf-8', 'utf-16']}


def mc_stage():
    r = core.tlc_must_pass(os.path.join(core.SPEC, 'MC_Train.tla'), os.path.join(core.SPEC, 'MC_Train.cfg'), 'Train', timeout=900)
    return {'cfg': 'MC_Train.cfg', 'states': r.distinct, 'transitions': r.generated, 'wall_s': round(r.wall, 1)}


def cap_variants(rng, w):
    return rng.choice([w, w.capitalize(), w.upper(), w[:-1] + w[-1].upper(), w])


def make_list(rng, pool, with_ew):
    P = POOLS[pool]
    pws = []
    words = list(P['words'])
    for w in words[:3]:
        pws += [w] * 5                    # base words (multi-word threshold 5)
    for _ in range(rng.randint(6, 14)):
        w = cap_variants(rng, rng.choice(words))
        shape = rng.choice(['w', 'wd', 'dw', 'ww', 'www', 'sw', 'ws', 'w w', 'wdw', 'walk', 'walk', 'ctx', 'd', 'wyear', 'www'])
        d = rng.choice(P['digits'])
        s = rng.choice(P['syms'])
        if shape == 'w':
            pw = w
        elif shape == 'wd':
            pw = w + d
        elif shape == 'dw':
            pw = d + w
        elif shape == 'ww':
            pw = rng.choice(words[:3]) + cap_variants(rng, rng.choice(words[:3]))
        elif shape == 'www':
            # three base words, each with its own capitalisation (the mask of every word must be learned from its own letters)
            a, b, c = (rng.choice(words[:3]) for _ in range(3))
            pw = a + cap_variants(rng, b) + rng.choice([c.upper(), c.capitalize(), c[:-1] + c[-1].upper()])
        elif shape == 'sw':
            pw = s + w
        elif shape == 'ws':
            pw = w + s
        elif shape == 'w w':
            pw = w + ' ' + rng.choice(words)
        elif shape == 'wdw':
            pw = w + d + rng.choice(words)
        elif shape == 'walk' and P['walks']:
            pw = rng.choice(P['walks']) + rng.choice(['', w])
            if rng.random() < 0.4:
                k = rng.choice(P['walks'])
                pw = k + rng.choice(['', d, s, w]) + k          # the same walk twice in one password
        elif shape == 'ctx' and P['ctx']:
            pw = w + rng.choice(P['ctx'])
        elif shape == 'wyear':
            pw = w + rng.choice(['1999', '2020'])
        else:
            pw = d
        pws.append(pw[:21])
    if P['walks']:
        # always: one password holding the same keyboard walk twice, and the walk once more on its own
        k = rng.choice([x for x in P['walks'] if x != 'asdf'])
        same = [x for x in P['walks'] if len(x) == len(k) and x != k]
        pws += [k + rng.choice(['', ' ', 'M']) + k, k, (rng.choice(same) if same else rng.choice(P['walks'])) + '!']   # separators that continue no walk
    if with_ew:
        for e in P['emails'] + P['sites']:
            pws.append(e)
            pws.append(e + rng.choice(P['digits'] + P['syms']))      # e-mail / website followed by another segment
            if rng.random() < 0.5:
                pws.append(rng.choice(words) + e)
    pws += rng.sample(pws, min(4, len(pws)))          # duplicates
    rng.shuffle(pws)
    return pws


def tie_list(rng, pool):
    """an exact probability tie between the two parents of one pre-terminal: word counts a:b and digit counts a:b inside one
    structure (nothing else in the list touches those two tables), so P(w1) * P(d2) == P(w2) * P(d1); the child of the tied
    parents must still be emitted, exactly once"""
    words = list(POOLS[pool]['words'])
    same_len = [(x, y) for x in words for y in words if x < y and len(x) == len(y)]
    w1, w2 = rng.choice(same_len) if same_len else (words[0], words[0][::-1])
    a, b = rng.choice([(3, 1), (7, 1), (3, 1), (15, 1)])     # dyadic probabilities: the two float products are exactly equal
    d1, d2 = rng.choice([('347', '582'), ('11', '22'), ('7', '8')])
    pws = [w1 + d1] * (a * a) + [w1 + d2] * (a * b) + [w2 + d1] * (b * a) + [w2 + d2] * (b * b)
    if rng.random() < 0.5:
        pws = [p.capitalize() if rng.random() < 0.4 else p for p in pws]       # masks tie with words / digits as well
    pws += rng.sample(['!!', '!', '#', ' x ', '9', '0'], 2)
    rng.shuffle(pws)
    return pws


def invertible_case(pw):
    for c in pw:
        if c.istitle() and not c.isupper():
            return False
        if c.isupper() and c.lower().upper() != c:
            return False
        if c.isupper() and len(c.lower()) != 1:
            return False
    return True


def tokens(struct):
    return re.findall(r'[A-Z][0-9]*', struct)


def segment_tallies(sections):
    """tallies of the segmentation itself (final section list of every parsed password, captured at
    base_structure_creation): words lower-cased, masks, digit / other / keyboard strings per length, years, context strings,
    raw and supported base structures"""
    from collections import Counter, defaultdict
    out = {k: defaultdict(Counter) for k in 'ACDOK'}
    out.update({'Y': Counter(), 'X': Counter(), 'raw': Counter(), 'base': Counter()})
    for sl in sections:
        labels = []
        for text, lab in sl:
            labels.append(lab or '?')
            k = (lab or '?')[0]
            if k == 'A':
                out['A'][len(text)][text.lower()] += 1
                out['C'][len(text)][''.join('U' if c.isupper() else 'L' for c in text)] += 1
            elif k in 'DOK':
                out[k][len(text)][text] += 1
            elif k in 'YX':
                out[k][text] += 1
        st = ''.join(labels)
        out['raw'][st] += 1
        if not any(l[0] in 'EW' for l in labels):
            out['base'][st] += 1
    return out


def list_traces(tid0, res, encoding, coverage, meta, desc):
    cap = res['captured']
    pp = cap['pcfg_parser']
    d = res['dir']
    traces = []
    tid = tid0
    I = {}
    ident = lambda s: I.setdefault(s, len(I) + 1)
    files = []
    seg = segment_tallies(cap['sections'])
    for folder, key in (('Alpha', 'A'), ('Capitalization', 'C'), ('Digits', 'D'), ('Other', 'O'), ('Keyboard', 'K')):
        for n, c in seg[key].items():
            files.append((os.path.join(folder, '%d.txt' % n), c, encoding))
    files += [(os.path.join('Years', '1.txt'), seg['Y'], encoding), (os.path.join('Context', '1.txt'), seg['X'], encoding),
              (os.path.join('Grammar', 'raw_grammar.txt'), seg['raw'], 'ascii'),
              (os.path.join('Prince', 'grammar.txt'), pp.count_prince, 'ascii'),
              (os.path.join('Emails', 'email_providers.txt'), pp.count_email_providers, encoding),
              (os.path.join('Websites', 'website_hosts.txt'), pp.count_website_hosts, encoding)]
    for rel, ctr, enc in files:
        path = os.path.join(d, rel)
        recs_raw = rulesets.neutral_value_prob(path, enc) if os.path.exists(path) else []
        total = sum(ctr.values())
        recs = []
        for v, ps in recs_raw:
            p = float(ps)
            c = round(p * total)
            recs.append({'v': ident(v), 'c': c, 'ok': bool(total and p == c / total)})
        tid += 1
        traces.append({'tid': tid, 'kind': 'list', 'recs': recs, 'tally': [[ident(k), v] for k, v in ctr.items()], 'total': total})
        meta[tid] = dict(desc, file=rel, n_items=len(ctr), head=[(v, ps) for v, ps in recs_raw[:4]])
    # ---- structure list: rational arithmetic for the Markov pseudo-count ----
    cov = Fraction(str(coverage))
    num, den = cov.numerator, cov.denominator
    gpath = os.path.join(d, 'Grammar', 'grammar.txt')
    grecs = rulesets.neutral_value_prob(gpath, 'ascii')
    N = cap['num_valid_passwords']
    ctr = dict(seg['base']) if cov != 0 else {}      # coverage 0: the Markov structure is the only one
    if 'M' in pp.count_base_structures:
        ctr['M'] = pp.count_base_structures['M']      # the pseudo-count entry; its value is recomputed below
    scale = num if 0 < cov < 1 else 1
    tally = []
    for k, v in ctr.items():
        if k == 'M':
            sv = N * (den - num) if 0 < cov < 1 else 1
        else:
            sv = int(v) * scale
        tally.append([ident(k), sv])
    total = sum(c for _, c in tally)
    recs = []
    mc = -1
    for v, ps in grecs:
        p = float(ps)
        c = round(p * total)
        ok = abs(Fraction(p) - Fraction(c, total)) <= Fraction(1, 10 ** 12) if total else False
        recs.append({'v': ident(v), 'c': c, 'ok': bool(ok)})
        if v == 'M':
            mc = c
    tid += 1
    traces.append({'tid': tid, 'kind': 'list', 'recs': recs, 'tally': tally, 'total': total})
    meta[tid] = dict(desc, file='Grammar/grammar.txt', scale=scale, head=grecs[:5])
    raw_structs = {v for v, _ in rulesets.neutral_value_prob(os.path.join(d, 'Grammar', 'raw_grammar.txt'), 'ascii')}
    unsup_tallied = [k for k in pp.count_raw_base_structures if any(t[0] in 'EW' for t in tokens(k))]
    tid += 1
    traces.append({'tid': tid, 'kind': 'grammar', 'cov': [num, den], 'n': N, 'mc': mc, 'nstruct': len(grecs),
                   'unsupported_in_grammar': sum(1 for v, _ in grecs if any(t[0] in 'EW' for t in tokens(v))),
                   'unsupported_missing_in_raw': sum(1 for k in unsup_tallied if k not in raw_structs)})
    meta[tid] = dict(desc, file='Grammar/grammar.txt (coverage clauses)', N=N, grammar=grecs[:8])
    return traces, tid


def digest(d):
    out = []
    for root, dirs, files in os.walk(d):
        for fn in sorted(files):
            full = os.path.join(root, fn)
            with open(full, 'rb') as f:
                data = f.read()
            rel = os.path.relpath(full, d)
            if rel == 'config.ini':
                data = b'\n'.join(l for l in data.split(b'\n') if not l.startswith((b'uuid', b'filename')))
            out.append((rel, hashlib.sha256(data).hexdigest()))
    return sorted(out)


N_BIG = [0]


def big_language_trace(tid, pcfg, supported, meta, desc):
    """the language is too large to enumerate: membership of every supported training password is decided by matching it
    against the loaded grammar (expand.grammar_derives); the probability sum is not computed"""
    N_BIG[0] += 1
    I = {}
    ident = lambda s: I.setdefault(s, len(I) + 1)
    derived = [p for p in supported if expand.grammar_derives(pcfg, p)]
    meta[tid] = dict(desc, supported=len(supported), language='too large to enumerate: membership by matching against the grammar',
                     missing=[p for p in supported if p not in set(derived)][:5])
    return {'tid': tid, 'kind': 'lang', 'supported': [ident(p) for p in supported], 'guesses': [ident(p) for p in derived] + [0], 'sum_ok': True}


def lang_trace(tid, res, pws, meta, desc):
    rec = segment.Recorder(pws)
    supported = []
    for pw in sorted(set(pws)):
        tr, raised = rec.parse(pw, 0)
        labels = [x['k'] for x in tr['snaps'][-1]['sl']]
        if raised or 'E' in labels or 'W' in labels or not invertible_case(pw):
            continue
        supported.append(pw)
    pcfg = ptq.load_pcfg(res['dir'], skip_brute=True)
    guesses = set()
    total = 0.0
    n_guess = 0
    # "generating from the resulting ruleset": the real priority queue run to exhaustion, each popped pre-terminal expanded
    hist = ptq.run_history(pcfg, [], with_queue=False, max_pops=60000)
    if hist.get('raised') or not hist['exhausted']:
        if hist.get('raised'):
            meta[tid] = dict(desc, supported=len(supported), error='the guesser raised: %s' % hist.get('raised'), missing=supported[:5])
            return {'tid': tid, 'kind': 'lang', 'supported': [1], 'guesses': [0], 'sum_ok': False}
        return big_language_trace(tid, pcfg, supported, meta, desc)
    for it, _ in hist['sessions'][0]['ev']:
        pt = it['pt']
        lines, n = expand.expand_real(pcfg, pt)
        p = it['base_prob']
        for t, i in pt:
            p *= pcfg.grammar[t][i]['prob']
        total += p * n
        n_guess += n
        guesses.update(lines)
        if n_guess > 400000:
            return big_language_trace(tid, pcfg, supported, meta, desc)
    if not supported and not guesses:
        return None     # nothing but unsupported structures: the non-Markov language is empty, C03 says nothing about it
    I = {}
    ident = lambda s: I.setdefault(s, len(I) + 1)
    missing = [p for p in supported if p not in guesses]
    meta[tid] = dict(desc, supported=len(supported), guesses=len(guesses), prob_sum=total, missing=missing[:5])
    return {'tid': tid, 'kind': 'lang', 'supported': [ident(p) for p in supported],
            'guesses': [ident(g) for g in guesses if g in set(supported)] + [0],
            'sum_ok': bool(abs(total - 1.0) <= 1e-9)}


def main(pid, tier, seed):
    t0 = time.time()
    rng = random.Random(seed)
    verdict = core.Verdict(pid)
    mc = mc_stage()
    traces, meta = [], {}
    tid = 0
    n_lists = 10 if tier == 'quick' else (2500 if pid == 'C06' else 500)
    n_train = 0
    n_alpha_retry = 0
    from . import lists as _lists
    specials = sorted(_lists.special_lists().items())
    for k in range(n_lists + len(specials)):
        pool = rng.choice(list(POOLS))
        enc = rng.choice(ENC_OF[pool])
        coverage = rng.choice([0.25, 0.6, 1, 0.6, 0.5] if pid == 'C03' else [0, 0.25, 0.6, 1, 0.6, 0.7])
        ngram = rng.choice([2, 3, 4])
        asz = rng.choice([10, 100])
        pws = make_list(rng, pool, with_ew=(pool == 'ascii' and rng.random() < 0.6))
        if k == 1:
            pws = tie_list(rng, pool)
        if k >= n_lists:
            # the shared special lists (lists.py)
            sname, (pws, sopt) = specials[k - n_lists]
            pws = list(pws)
            pool, enc = 'special:' + sname, 'utf-8'
            coverage = sopt.get('coverage', 0.6 if coverage == 0 else coverage)
        if k == 0 and pid == 'C06':
            # unsupported structures dominate
            pws = ['bob@aol.com'] * 4 + ['www.google.com12', 'x@y.org1', 'pass'] + ['a.b@gmail.com!'] * 2
            coverage = 0.6
        if k == 2 and pid == 'C06':
            # nothing but unsupported structures, and a Markov pseudo-count N * (1 / coverage - 1) BELOW 1: the Markov structure
            # is then the only entry of the base-structure list and must carry probability 1
            pws = rng.choice([['bob@aol.com'], ['bob@aol.com', 'www.google.com12'], ['a.b@gmail.com!']])
            coverage = rng.choice([0.6, 0.8]) if len(pws) == 1 else rng.choice([0.8, 0.75])
            pool, enc = 'ascii', 'utf-8'
        if enc == 'utf-16':
            raw = '\n'.join(pws).encode('utf-16') + '\n'.encode('utf-16')[2:]
            kw = dict(raw=raw)
        else:
            kw = dict(passwords=pws)
        res = train.train(encoding=enc, ngram=ngram, alphabet_size=asz, coverage=coverage, **kw)
        if not res['ok'] and asz < 100 and 'ZeroDivisionError' in (res['error'] or ''):
            # no password starts with an initial n-gram inside the (tiny) alphabet: the OMEN smoothing divides by the zero
            # IP total and training does not complete - outside C03 ("if training completes") and C06; the same list is
            # trained with the default alphabet size instead
            n_alpha_retry += 1
            asz = 100
            res = train.train(encoding=enc, ngram=ngram, alphabet_size=asz, coverage=coverage, **kw)
        desc = {'pool': pool, 'encoding': enc, 'coverage': coverage, 'ngram': ngram, 'alphabet_size': asz, 'passwords': pws[:10], 'n': len(pws)}
        if not res['ok']:
            tid += 1
            traces.append({'tid': tid, 'kind': 'same', 'a': [1], 'b': [2]})
            meta[tid] = dict(desc, error='training failed', out=res['stdout'][-400:], exc=res['error'])
            continue
        n_train += 1
        if pid == 'C06':
            tr, tid = list_traces(tid, res, enc, coverage, meta, desc)
            traces += tr
            if k % 3 == 0:
                res2 = train.train(encoding=enc, ngram=ngram, alphabet_size=asz, coverage=coverage, **kw)
                a, b = digest(res['dir']), digest(res2['dir'])
                I = {}
                ident = lambda s: I.setdefault(s, len(I) + 1)
                tid += 1
                traces.append({'tid': tid, 'kind': 'same', 'a': [[ident(x), ident(y)] for x, y in a], 'b': [[ident(x), ident(y)] for x, y in b]})
                meta[tid] = dict(desc, check='two trainings of the same input', differing=[x for (x, y), (u, v) in zip(a, b) if (x, y) != (u, v)][:5])
        else:
            tid += 1
            lt = lang_trace(tid, res, pws, meta, desc)
            if lt is None:
                tid -= 1
            else:
                traces.append(lt)

    # ---- the command line is how the options reach run_trainer: trainer.py <options> must write the ruleset that run_trainer
    # ---- writes when it is handed the same option values (coverage 0 and 1 in every spelling, n-gram size, alphabet size,
    # ---- count prefixes)
    n_cli = 0
    if pid == 'C06':
        from concurrent.futures import ThreadPoolExecutor
        from . import session
        rcopy = core.repo_copy('tcli')
        cwork = core.scratch('tclifiles')
        optsets = [(['-c', '0'], dict(coverage=0)), (['-c', '0.0'], dict(coverage=0.0)), (['-c', '1'], dict(coverage=1)),
                   (['--coverage', '1.0'], dict(coverage=1.0)), (['-c', '0.35'], dict(coverage=0.35)), ([], dict()),
                   (['-n', '2'], dict(ngram=2)), (['--ngram', '5', '-c', '0.9'], dict(ngram=5, coverage=0.9)),
                   (['-a', '20'], dict(alphabet_size=20)), (['-c', '1e-9'], dict(coverage=1e-9)),
                   (['--prefixcount'], dict(prefixcount=True)), (['--multiword', 'MW'], dict(multiword='MW')),
                   (['--comments', 'a comment, with = and [brackets]'], dict())]
        cjobs = []
        for li in range(2 if tier == 'quick' else 12):
            pool = rng.choice(list(POOLS))
            pws = make_list(rng, pool, with_ew=(pool == 'ascii'))
            if not all(pw.encode('utf-8', 'ignore').decode('utf-8') == pw for pw in pws):
                continue
            # (whatever the detectors decide for these must not depend on the process that runs them)
            pws = list(pws) + ['joe@mail.org.net', 'sam@corp.uk.ca7', 'anna@web.de.fr', 'www.site.com.org', 'joe@mail.org.net']
            tf = os.path.join(cwork, 'list%d.txt' % li)
            with open(tf, 'wb') as f:
                for pw in pws:
                    f.write(pw.encode('utf-8') + b'\n')
            # the same list in `uniq -c` form, and a word list to pre-train the multi-word detector with
            tfc = os.path.join(cwork, 'list%d_counted.txt' % li)
            cnt_ = {}
            for pw in pws:
                cnt_[pw] = cnt_.get(pw, 0) + 1
            with open(tfc, 'wb') as f:
                for pw, n_ in cnt_.items():
                    f.write(('%7d %s' % (n_, pw)).encode('utf-8') + b'\n')
            mwf = os.path.join(cwork, 'words%d.txt' % li)
            with open(mwf, 'wb') as f:
                for w_ in ['pass', 'word', 'love', 'monkey', 'dragon'] * 6:
                    f.write(w_.encode() + b'\n')
            for oi, (args, kw) in enumerate(optsets if tier != 'quick' else optsets[:6] + rng.sample(optsets[6:], 2)):
                args = [mwf if a_ == 'MW' else a_ for a_ in args]
                kw = {k_: (mwf if v_ == 'MW' else v_) for k_, v_ in kw.items()}
                counted_ok = not any(pw != pw.strip() or '  ' in pw for pw in pws)
                if kw.get('prefixcount') and not counted_ok:
                    continue
                cjobs.append((li, oi, tfc if kw.get('prefixcount') else tf, pws, args, kw))

        def run_cli(job):
            li, oi, tf, pws, args, kw = job
            name = 'cli_%d_%d' % (li, oi)
            out, err, code = session.cli(rcopy, 'trainer.py', ['-t', tf, '-r', name, '-e', 'utf-8', '--save_sensitive'] + args, stdin='devnull', timeout=600)
            return os.path.join(rcopy, 'Rules', name), out.decode('utf-8', 'replace')[-300:]
        with ThreadPoolExecutor(core.NCPU) as ex:
            cres = list(ex.map(run_cli, cjobs))
        for (li, oi, tf, pws, args, kw), (cdir, cout) in zip(cjobs, cres):
            base = dict(ngram=4, alphabet_size=100, coverage=0.6)
            base.update(kw)
            res = train.train(training_file=tf, encoding='utf-8', **base)
            strip = lambda dg: [(x, y) for x, y in dg if x != 'config.ini']
            a = strip(digest(res['dir'])) if res['ok'] else [('library training failed', res['error'] or '')]
            b = strip(digest(cdir)) if os.path.isdir(os.path.join(cdir, 'Grammar')) else [('command line wrote no ruleset', cout)]
            if not res['ok'] and b and b[0][0] == 'command line wrote no ruleset':
                continue        # both refuse (e.g. the smoothing's division by zero on a tiny alphabet): nothing to compare
            I = {}
            ident = lambda s_: I.setdefault(s_, len(I) + 1)
            tid += 1
            n_cli += 1
            traces.append({'tid': tid, 'kind': 'same', 'a': [[ident(x), ident(y)] for x, y in a], 'b': [[ident(x), ident(y)] for x, y in b]})
            meta[tid] = {'check': 'trainer.py command line vs run_trainer with the same option values', 'args': args, 'options': base,
                         'passwords': pws[:8], 'differing': sorted(set(a) ^ set(b))[:6]}

    # C03 also needs the guesser's loader to give every alpha variable of a base structure its own case-mask variable
    # (Loader.tla InsLoop = InsertC): every file of the Loader model space through the real default load
    ins = None
    if pid == 'C03':
        from . import check_loader
        core.use_repo()
        ins = check_loader.insertion_stage(verdict)

    comp = None
    if pid == 'C03':
        from . import compose
        comp = compose.stage(tier, random.Random(seed * 104729 + 5), verdict, pid)

    verdicts, st = core.validate_traces('TrTrain.tla', traces, chunk=200, timeout=900)
    for t in traces:
        v = verdicts[t['tid']]
        if v[0] != 'ACCEPT':
            m = meta[t['tid']]
            failing = list(v[1]) if isinstance(v[1], (tuple, list)) else [v[1]]
            verdict.violation(dict(m, clause='+'.join(failing), failing=failing, check=m.get('file', m.get('check', ''))),
                              'clauses %s; %s' % (failing, core.short({k: m[k] for k in m if k != 'passwords'}, 300)))
    def corrupt(t):
        if t['kind'] == 'list' and len(t['recs']) >= 2:
            t['recs'][0]['c'] += 1                   # a written probability that is not count / total
            return t
        if t['kind'] == 'lang' and t['supported']:
            t['guesses'] = [g for g in t['guesses'] if g != t['supported'][0]]     # a training password the guesser never emits
            return t
        return None
    accepted = [t for t in traces if verdicts[t['tid']][0] == 'ACCEPT']
    selftest = core.binding_selftest('TrTrain.tla', accepted, corrupt)
    rc, n_viol, n_known = verdict.finish()
    distinct = len({json.dumps({k: v for k, v in t.items() if k != 'tid'}, sort_keys=True) for t in traces
                    if t['kind'] != 'list' or len(t['recs']) > 1})
    s = traces[min(2, len(traces) - 1)]
    cov = {'states': mc['states'], 'transitions': mc['transitions'],
           'traces_validated_against_impl': len(traces),
           'samples': [{'meta': meta[s['tid']]}], 'model_checking': mc,
           'evaluations': len(traces), 'distinct_nontrivial': distinct,
           'rule': 'C06: one trace = one saved list of one real training against the tallies captured from the trainer memory, the structure '
                   'list coverage clauses, or two trainings of the same input; C03: one trace = one real training + the real guesser run to '
                   'exhaustion with --skip_brute; non-trivial = list with more than one record',
           'trainings': n_train, 'languages_too_large_to_enumerate_decided_by_matching': N_BIG[0], 'command_line_trainings_compared_with_run_trainer': n_cli, 'trainings_not_completed_with_tiny_alphabet_retried_with_default': n_alpha_retry, 'loader_insertion': ins, 'composition': comp, 'trace_validation': st, 'exhaustive': False, 'binding_selftest': selftest,
           'known_findings_reproduced': n_known, 'violation_histogram': verdict.histogram()}
    core.write_evidence(pid, tier, seed, 'model_checking', cov, time.time() - t0, violations=n_viol,
                        assumptions=['TLC', 'written probability converted to an integer count c = round(p*total) and p == c/total checked in binary64 '
                                     '(structure list: 1e-12 against the exact rational)', 'tallies captured from the trainer in-memory Counters',
                                     'C03 domain: letters with one-to-one case mapping; coverage 0 is outside C03 (C06: only the Markov structure)'])
    return rc
