"""Run the real trainer in-process on a generated training list and capture its in-memory objects
by rebinding names in lib_trainer.run_trainer (no source hooks)."""
import contextlib
import io
import os

from . import core

core.use_repo()


def train(passwords=None, dest=None, encoding='utf-8', ngram=4, alphabet_size=100, coverage=0.6,
          prefixcount=False, raw=None, multiword=False, training_file=None, max_len=21):
    """Train on `passwords` (list of str, written one per line in `encoding`) or on raw bytes `raw`.
    Returns dict(ok, dir, captured={'omen_trainer', 'pcfg_parser', 'omen_keyspace', 'omen_levels_count',
    'num_valid_passwords', 'file_input'}, stdout)."""
    import lib_trainer.run_trainer as rt
    from lib_trainer.trainer_file_output import create_rule_folders
    work = dest or core.scratch('trained')
    os.makedirs(work, exist_ok=True)
    if training_file is None:
        training_file = os.path.join(core.scratch('tf'), 'train.txt')
        with open(training_file, 'wb') as f:
            if raw is not None:
                f.write(raw)
            else:
                for p in passwords:
                    f.write(p.encode(encoding) + b'\n')
    info = {
        'name': 'PCFG Trainer', 'version': '4.7', 'author': 'x', 'contact': 'x', 'rule_name': 'verif',
        'training_file': training_file, 'encoding': encoding, 'comments': '', 'save_sensitive': True,
        'prefixcount': prefixcount, 'ngram': ngram, 'alphabet_size': alphabet_size,
        'alphabet': '', 'smoothing': 0.01, 'coverage': coverage, 'max_len': max_len, 'multiword': multiword,
    }
    cap = {}
    orig = {k: getattr(rt, k) for k in ('calc_omen_keyspace', 'save_pcfg_data', 'save_omen_rules_to_disk', 'TrainerFileInput')}

    def calc(omen_trainer, *a, **kw):
        cap['omen_trainer'] = omen_trainer
        r = orig['calc_omen_keyspace'](omen_trainer, *a, **kw)
        cap['omen_keyspace'] = r
        return r

    def save_pcfg(base_directory, pcfg_parser, *a, **kw):
        cap['pcfg_parser'] = pcfg_parser
        return orig['save_pcfg_data'](base_directory, pcfg_parser, *a, **kw)

    def save_omen(omen_trainer, omen_keyspace, omen_levels_count, num_valid_passwords, *a, **kw):
        cap['omen_levels_count'] = omen_levels_count
        cap['num_valid_passwords'] = num_valid_passwords
        return orig['save_omen_rules_to_disk'](omen_trainer, omen_keyspace, omen_levels_count, num_valid_passwords, *a, **kw)

    inputs = []

    class TFI(orig['TrainerFileInput']):
        def __init__(self, *a, **kw):
            super().__init__(*a, **kw)
            self.verif_yielded = []          # what this pass of run_trainer really saw
            inputs.append(self)

        def read_password(self):
            for pw in super().read_password():
                self.verif_yielded.append(pw)
                yield pw

    # the segmentation itself: the final section list of every parsed password (C06's tallies are tallies of these)
    import lib_trainer.pcfg_password_parser as ppm
    sections = []
    orig_bsc = ppm.base_structure_creation

    def bsc(section_list, *a, **kw):
        sections.append([(t, lab) for t, lab in section_list])
        return orig_bsc(section_list, *a, **kw)
    ppm.base_structure_creation = bsc
    rt.calc_omen_keyspace = calc
    rt.save_pcfg_data = save_pcfg
    rt.save_omen_rules_to_disk = save_omen
    rt.TrainerFileInput = TFI
    out = io.StringIO()
    ok = False
    err = None
    try:
        with contextlib.redirect_stdout(out), contextlib.redirect_stderr(out):
            if create_rule_folders(work):
                ok = bool(rt.run_trainer(info, work))
    except Exception as ex:  # the trainer itself raised
        err = repr(ex)
    finally:
        for k, v in orig.items():
            setattr(rt, k, v)
        ppm.base_structure_creation = orig_bsc
    cap['sections'] = sections
    cap['file_inputs'] = inputs
    cap['program_info'] = info
    return {'ok': ok, 'dir': work, 'captured': cap, 'stdout': out.getvalue(), 'error': err,
            'training_file': training_file}
