"""C04 (pre-terminal = product of its groups) and C09 (stdout = guess stream, --limit exact).
Model: spec/Expand.tla; verdict: spec/TrExpand.tla."""
import json
import os
import random
import time
from concurrent.futures import ThreadPoolExecutor

from . import core, ptq, expand, session


def mc_stage(tier):
    cfg = os.path.join(core.SPEC, 'MC_Expand_%s.cfg' % tier)
    mod = os.path.join(core.SPEC, 'MC_Expand.tla')
    r = core.tlc_must_pass(mod, cfg, 'Expand %s' % tier, timeout=3000)
    return {'cfg': os.path.basename(cfg), 'states': r.distinct, 'transitions': r.generated,
            'wall_s': round(r.wall, 1)}, cfg


def record_pts(pid, path, pcfg, flags, tid0, rng, desc, traces, meta, strings, otraces=None, pts=None):
    fileprobs = expand.file_prob_ranks(path, pcfg)
    tid = tid0
    for b, pt in (pts if pts is not None else expand.all_pts(pcfg)):
        groups = expand.pt_groups(pcfg, pt, path, fileprobs, synth_caps=flags.get('skip_case', False))
        lines, n = expand.expand_real(pcfg, pt)
        is_m = groups[0]['k'] == 'markov'
        m_judged = False
        if is_m:
            # the I-layer sees the level as the strings the generator yields.  For the verdict the group's levels
            # are drained one by one from the real generator (judged exact by C10): a Markov pre-terminal must
            # expand to the strings of *every* level that shares the group's (non-zero) probability.  Groups of
            # probability 0.0 carry no mass: either behaviour is accepted (DESIGN 5.0).
            from . import omen as _omen
            t0, i0 = pt[0]
            grp = pcfg.grammar[t0][i0]
            want = []
            for lv in grp['values']:
                ss, done, err = _omen.drain(pcfg.omen_grammar, int(lv), _omen.new_optimizer(), cap=5000)
                want += ss
            gen_groups = [dict(groups[0], v=[expand.cps(x) for x in lines], fr=[])]
            if otraces is not None and grp['prob'] > 0 and len(grp['values']) == 1:
                # independent oracle: TLC's Omen!LevelSet on the model read from the ruleset's own Omen files
                from . import omen as _o
                model, ids = _o.neutral_model(os.path.join(path, 'Omen'))
                otraces.append({'tid': len(otraces) + 1, 'kind': 'level', 'm': model, 'level': int(grp['values'][0]), 'done': True,
                                'ev': [_o.ids_of(x, ids) for x in lines],
                                '_meta': {'ruleset': desc, 'flags': flags, 'pt': pt, 'check': 'Markov pre-terminal vs Omen!LevelSet'}})
            if grp['prob'] > 0:
                m_judged = True
                groups = [dict(groups[0], v=[expand.cps(x) for x in want])]
                strings.extend(want)
            else:
                groups = gen_groups
        strings.extend(lines)
        for g, (t, i) in zip(groups, pt):
            if g['k'] == 'plain':
                strings.extend(pcfg.grammar[t][i]['values'])
        if pid == 'C04' and (not is_m or m_judged):
            tid += 1
            rp = pp = 0
            if b is not None:
                try:
                    reported = pcfg._find_prob([tuple(x) for x in pt], b['prob'])
                    product = b['prob']
                    for t_, i_ in pt:
                        product *= pcfg.grammar[t_][i_]['prob']
                    rp, pp = (1, 1) if abs(reported - product) <= 1e-12 * max(abs(product), 1e-300) else (1, 2)
                except Exception:
                    rp, pp = 0, 0           # (not observable in this version of the code)
            traces.append({'tid': tid, 'kind': 'pt', 'groups': groups, 'lines': [expand.cps(s) for s in lines], 'count': n, 'rp': rp, 'pp': pp})
            meta[tid] = {'ruleset': desc, 'flags': flags, 'pt': pt, 'markov_levels': list(pcfg.grammar[pt[0][0]][pt[0][1]]['values']) if is_m else None}
        if is_m and pid == 'C04' and m_judged and len(lines) >= 3:
            # the same Markov pre-terminal interrupted after k strings (quit flag set while the k-th string is written) and
            # continued by restore_omen() on a freshly loaded grammar: the remaining strings, count reported = lines written
            for k_ in sorted({1, len(lines) // 2, len(lines) - 1}):
                got1 = []

                def hook(g_, k_=k_, got1=got1):
                    got1.append(g_)
                    if len(got1) >= k_:
                        pcfg.should_exit = True
                pcfg.print_guess = hook
                pcfg.should_exit = False
                pcfg.omen_exit = False
                import contextlib as _c2, io as _i2
                with _c2.redirect_stderr(_i2.StringIO()):
                    n1 = pcfg.create_guesses(pt)
                pcfg.should_exit = False
                pcfg.omen_exit = False
                pc2 = ptq.load_pcfg(path, save_file=pcfg.save_file, **flags)
                got2 = []
                pc2.print_guess = got2.append
                try:
                    n2 = pc2.restore_omen(len(got1), {'prob': 0.5, 'pt': [['M', 1, 1]], 'level': 1}, None)
                except Exception as ex:
                    n2, got2 = -1, []
                rest = lines[len(got1):]
                tid += 1
                traces.append({'tid': tid, 'kind': 'pt', 'rp': 0, 'pp': 0, 'groups': [dict(groups[0], v=[expand.cps(x) for x in rest])],
                               'lines': [expand.cps(s_) for s_ in got2], 'count': n2})
                meta[tid] = {'ruleset': desc, 'flags': flags, 'pt': pt, 'check': 'Markov pre-terminal interrupted after %d strings and restored' % len(got1),
                             'reported_by_first_part': n1, 'written_by_first_part': len(got1), 'reported_by_restore': n2, 'written_by_restore': len(got2)}
                strings.extend(got2)
        if is_m:
            groups = gen_groups
        # I-layer conformance with a limit
        total = len(lines)
        for limit in sorted({1, max(1, total // 2), total, total + 1, rng.randint(1, total + 1)}):
            l2, n2 = expand.expand_real(pcfg, pt, limit=limit)
            tid += 1
            traces.append({'tid': tid, 'kind': 'gen', 'groups': groups, 'limit': limit,
                           'lines': [expand.cps(s) for s in l2], 'count': n2})
            meta[tid] = {'ruleset': desc, 'flags': flags, 'pt': pt, 'limit': limit}
    return tid


def unlimited_lines(pcfg):
    d = core.scratch('sav')
    r = session.run_session(pcfg, session.new_save_config(), os.path.join(d, 's.sav'))
    return r['lines']


def main(pid, tier, seed):
    t0 = time.time()
    rng = random.Random(seed)
    verdict = core.Verdict(pid)
    mc, mc_cfg = mc_stage(tier)
    work = core.scratch('rules')
    traces, meta, strings = [], {}, []
    otraces = []
    tid = 0

    # ---- spec -> code: the catalogue ruleset (all PTs of the model) ----
    cat = expand.export_catalogue(mc_cfg)
    catdir = os.path.join(work, 'catalogue')
    expand.catalogue_ruleset(cat, catdir)
    rule_dirs = [(catdir, {'kind': 'catalogue ruleset of MC_Expand', 'npt_model': cat['NPT']})]
    n_rich = 12 if tier == 'quick' else 150
    for k in range(n_rich):
        d = os.path.join(work, 'r%d' % k)
        desc = expand.tie_group_ruleset(rng, d) if k % 4 == 0 else expand.rich_ruleset(rng, d)
        rule_dirs.append((d, desc))
    from . import shapes
    rule_dirs += shapes.all_special(rng, work)          # the shared special shapes (long alphas, near ties, repeated types, ...)
    if pid == 'C04':
        for k in range(2 if tier == 'quick' else 20):
            d = os.path.join(work, 'dense%d' % k)
            rule_dirs.append((d, expand.dense_omen_ruleset(rng, d)))

    # ---- C04 on the shipped ruleset: the pre-terminals the real queue pops first (those whose product has at most 300 strings)
    n_shipped_pts = 0
    if pid == 'C04':
        sd_ = os.path.join(core.REPO, 'Rules', 'Default')
        if os.path.isdir(os.path.join(sd_, 'Grammar')):
            spc = ptq.load_pcfg(sd_, skip_brute=True)
            hist = ptq.run_history(spc, [], with_queue=False, max_pops=120 if tier == 'quick' else 2500)
            sel = []
            for it, _ in hist['sessions'][0]['ev']:
                size = 1
                for t_, i_ in it['pt']:
                    size *= len(spc.grammar[t_][i_]['values'])
                if size <= 300:
                    sel.append((None, [tuple(x) for x in it['pt']]))
            before_ = len(traces)
            tid = record_pts(pid, sd_, spc, {'skip_brute': True}, tid, rng, {'kind': 'shipped ruleset Default'}, traces, meta, strings, otraces, pts=sel)
            n_shipped_pts = len(traces) - before_

    limit_jobs = []
    for d, desc in rule_dirs:
        flagsets = [dict()] if pid == 'C04' else [dict(), dict(skip_case=True)]
        if pid == 'C04' and rng.random() < 0.3:
            flagsets.append(dict(skip_case=True))
        for flags in flagsets:
            try:
                pcfg = ptq.load_pcfg(d, save_file=os.path.join(d, 'session.sav'), **flags)
            except Exception as ex:
                if len(core.PENDING_RAISES) < 10:
                    core.PENDING_RAISES.append({'error': repr(ex), 'clause': pid + '_ruleset_cannot_be_loaded', 'via': 'PcfgGrammar()', 'ruleset': core.short(desc, 200), 'flags': flags})
                continue
            if pid == 'C04':
                tid = record_pts(pid, d, pcfg, flags, tid, rng, desc, traces, meta, strings, otraces)
            else:
                full = unlimited_lines(pcfg)
                total = len(full)
                if total == 0 or total > 4000:
                    continue
                strings.extend(full)
                if tier == 'quick':
                    ns = sorted({1, 2, total - 1, total, total + 1, rng.randint(1, total), rng.randint(1, total)} - {0})
                else:
                    ns = list(range(1, total + 2)) if total <= 60 else \
                        sorted({rng.randint(1, total + 1) for _ in range(40)} | {1, total, total + 1})
                for N in ns:
                    pc2 = ptq.load_pcfg(d, save_file=os.path.join(d, 'session.sav'), **flags)
                    r = session.run_session(pc2, session.new_save_config(), os.path.join(d, 'session.sav'), limit=N)
                    tid += 1
                    noise = r.get('stdout_noise', '')
                    traces.append({'tid': tid, 'kind': 'limit', 'N': N, 'full': [expand.cps(s) for s in full],
                                   'lines': [expand.cps(s) for s in r['lines']], 'hasout': bool(noise),
                                   'stdout': [expand.cps(x) for x in noise.split('\n')] if noise else []})
                    meta[tid] = {'ruleset': desc, 'flags': flags, 'N': N, 'via': 'CrackingSession.run'}
                limit_jobs.append((d, desc, flags, full))

    # ---- C09: the other modes that honour --limit (random_walk, honeywords): exactly N lines, random_walk = prefix of a longer run
    if pid == 'C09':
        import contextlib as _cl
        import io as _io
        from lib_guesser.honeyword_session import HoneywordSession
        n_modes = 0
        from . import check_honey
        hdirs = []
        for k in range(12 if tier == 'quick' else 120):
            # well-formed rulesets (every list sums to 1): a draw always selects something
            d_ = os.path.join(work, 'hw%d' % k)
            hdirs.append((d_, {'base': check_honey.make_ruleset(rng, d_)['base'], 'kind': 'normalised dyadic ruleset'}))
        for d, desc in hdirs:
            pc_ = ptq.load_pcfg(d)
            if not any('M' in b['replacements'] for b in pc_.base) or all('M' in b['replacements'] for b in pc_.base):
                continue            # a Markov structure next to others: walks that land on it produce nothing and cost nothing
            if n_modes >= (4 if tier == 'quick' else 40):
                break

            def hrun(mode, N):
                pc2 = ptq.load_pcfg(d)
                out_ = []
                pc2.print_guess = out_.append
                with _cl.redirect_stderr(_io.StringIO()), _cl.redirect_stdout(_io.StringIO()):
                    HoneywordSession(pc2, mode).run(limit=N)
                return out_
            ref = hrun('random_walk', 60)
            for mode in ('random_walk', 'honeywords'):
                for N in (1, 2, 3, 7, 25):
                    got = hrun(mode, N)
                    full = ref if mode == 'random_walk' else (got + ['\x00'] * max(0, N - len(got)))
                    tid += 1
                    traces.append({'tid': tid, 'kind': 'limit', 'N': N, 'full': [expand.cps(s_) for s_ in full],
                                   'lines': [expand.cps(s_) for s_ in got], 'hasout': False, 'stdout': []})
                    meta[tid] = {'ruleset': desc, 'flags': {}, 'N': N, 'via': 'HoneywordSession.run(limit=N), mode ' + mode, 'got': len(got)}
            strings.extend(ref)
            n_modes += 1

    # ---- C09: status / help requests while guessing, on sessions of every age: nothing but guesses on stdout ----
    if pid == 'C09':
        from . import gated
        n_status = 0
        for d, desc, flags, full in limit_jobs[:3 if tier == 'quick' else 20]:
            if not full or len(full) > 2000:
                continue
            for script, age in ((['', 'block'], 3 * 86400 + 4000), (['h', '', 'block'], 59), (['', '', 'block'], 9 * 86400 + 61),
                                (['x', '', 'block'], 86400 + 5)):
                fn = os.path.join(d, 'st.sav')
                pcfg = ptq.load_pcfg(d, save_file=fn, **flags)
                run = gated.GatedRun(pcfg, session.new_save_config(), fn, script, age=age)

                def burst(enabled, step, gates):
                    return 'K' if (step >= 9 and 'K' in enabled) else ('M' if 'M' in enabled else enabled[0])   # after the first guesses
                r = run.run(burst)
                noise = r.get('stdout_noise', '')
                tid += 1
                traces.append({'tid': tid, 'kind': 'limit', 'N': len(full) + 1, 'full': [expand.cps(s_) for s_ in full],
                               'lines': [expand.cps(s_) for s_ in r['lines']], 'hasout': bool(noise),
                               'stdout': [expand.cps(x) for x in noise.split('\n')] if noise else []})
                meta[tid] = {'ruleset': desc, 'flags': flags, 'N': len(full) + 1, 'via': 'real keyboard thread, status requests, session age %d s' % age,
                             'script': script, 'stdout_noise': noise[:80]}
                n_status += 1

    # ---- C09: --limit on a resumed session (--load), also when the session was cut inside a Markov level ----
    if pid == 'C09':
        import shutil
        from . import sessrules
        for k in range(3 if tier == 'quick' else 20):
            d = os.path.join(work, 'sr%d' % k)
            desc = sessrules.make(rng, d, with_m=True)
            E = sessrules.expected(d)
            mpos = [i for i, e in enumerate(E, 1) if e[1]]
            cuts = sorted({mpos[0], rng.choice(mpos), rng.randint(1, len(E) - 1)}) if mpos else [rng.randint(1, len(E) - 1)]
            for g1 in cuts:
                fn = os.path.join(d, 'lim.sav')
                for f in (fn, fn[:-4] + '.omn'):
                    if os.path.exists(f):
                        os.remove(f)
                r1 = session.run_session(ptq.load_pcfg(d, save_file=fn), session.new_save_config(), fn, quit_at_guess=g1)
                if not os.path.exists(fn) or len(r1['lines']) >= len(E):
                    continue
                keep = {}
                for f in (fn, fn[:-4] + '.omn'):
                    if os.path.exists(f):
                        keep[f] = open(f, 'rb').read()

                def resumed(limit):
                    for f in (fn, fn[:-4] + '.omn'):
                        if os.path.exists(f):
                            os.remove(f)
                    for f, data in keep.items():
                        open(f, 'wb').write(data)
                    cfg, info = session.load_save(fn)
                    return session.run_session(ptq.load_pcfg(d, save_file=fn), cfg, fn, load=True, limit=limit)['lines']
                full2 = resumed(None)
                strings.extend(full2)
                total = len(full2)
                for N in sorted({1, 2, 3, total - 1, total, total + 1, rng.randint(1, max(1, total))} - {0}):
                    got = resumed(N)
                    tid += 1
                    traces.append({'tid': tid, 'kind': 'limit', 'N': N, 'full': [expand.cps(x) for x in full2],
                                   'lines': [expand.cps(x) for x in got], 'hasout': False, 'stdout': []})
                    meta[tid] = {'ruleset': desc, 'flags': {'load': True}, 'N': N, 'via': 'CrackingSession.run(load_session=True, limit=N)',
                                 'first_session_quit_after': g1, 'cut_inside_markov': bool(E[g1 - 1][1]), 'got': len(got)}

    # ---- C09: the real command line (stdout purity + limit) ----
    cli_runs = 0
    if pid == 'C09':
        rcopy = core.repo_copy('cli')
        jobs = []
        for k, (d, desc, flags, full) in enumerate(limit_jobs):
            name = 'v%d' % k
            os.symlink(d, os.path.join(rcopy, 'Rules', name))
            total = len(full)
            if tier == 'quick':
                ns = [None, 1, total, total + 1, rng.randint(1, total)] if k < 8 else [None, rng.randint(1, total)]
            else:
                ns = [None] + sorted(({1, 2, total - 1, total, total + 1} | {rng.randint(1, total) for _ in range(6)}) - {0})
            for N in ns:
                args = ['-r', name, '-s', 'sess%d_%s' % (k, N)]
                if N is not None:
                    args += ['-n', str(N)]
                if flags.get('skip_case'):
                    args.append('--all_lower')
                jobs.append((args, desc, flags, full, N))

        def runcli(job):
            out, err, code = session.cli(rcopy, 'pcfg_guesser.py', job[0], stdin='open')
            return session.stdout_lines(out)

        with ThreadPoolExecutor(core.NCPU) as ex:
            outs = list(ex.map(runcli, jobs))
        for (args, desc, flags, full, N), so in zip(jobs, outs):
            tid += 1
            n_eff = N if N is not None else len(full) + 1
            expect = full[:n_eff]
            strings.extend(so)
            traces.append({'tid': tid, 'kind': 'limit', 'N': n_eff, 'full': [expand.cps(s) for s in full],
                           'lines': [expand.cps(s) for s in expect], 'hasout': True,
                           'stdout': [expand.cps(s) for s in so]})
            meta[tid] = {'ruleset': desc, 'flags': flags, 'N': N, 'via': 'pcfg_guesser.py subprocess, stdin open pipe',
                         'args': args, 'stdout_head': so[:3]}
            cli_runs += 1

    updir = core.scratch('up')
    upfile = os.path.join(updir, 'up.json')
    with open(upfile, 'w') as f:
        json.dump(expand.up_table(strings), f)
    verdicts, st = core.validate_traces('TrExpand.tla', traces, env={'UP_FILE': upfile}, chunk=120)
    drift = []
    for t in traces:
        v = verdicts[t['tid']]
        if v[0] == 'ACCEPT':
            continue
        if t['kind'] == 'gen':
            drift.append((meta[t['tid']], v))
            continue
        clause = v[2]
        m = meta[t['tid']]
        w = dict(m, clause=clause)
        if t['kind'] == 'limit':
            w['got_head'] = [''.join(map(chr, x)) for x in (t['stdout'] if t['hasout'] else t['lines'])[:4]]
            w['want_head'] = [''.join(map(chr, x)) for x in t['full'][:4]]
        else:
            w['lines'] = [''.join(map(chr, x)) for x in t['lines']][:12]
        verdict.violation(w, 'clause %s; %s' % (clause, core.short({k: m[k] for k in m if k != 'ruleset'}, 200)))

    grid_of_files = None
    if pid == 'C04':
        from . import check_loader
        grid_of_files = check_loader.insertion_stage(verdict)
    if otraces:
        ometa = {t['tid']: t.pop('_meta') for t in otraces}
        ov, ost = core.validate_traces('TrOmen.tla', otraces, chunk=100, timeout=600)
        for t in otraces:
            v = ov[t['tid']]
            if v[0] != 'ACCEPT':
                failing = list(v[1]) if isinstance(v[1], (tuple, list)) else [v[1]]
                verdict.violation(dict(ometa[t['tid']], clause='C04_markov_level+' + '+'.join(failing)),
                                  'Markov pre-terminal does not expand to its OMEN level: %s; %s' % (failing, core.short(ometa[t['tid']]['pt'])))
    def corrupt(t):
        if t['kind'] == 'pt' and len(t['lines']) >= 2:
            t['lines'] = t['lines'][:-1]             # one guess missing, count unchanged
            return t
        if t['kind'] == 'limit' and len(t['lines']) >= 2 and t['lines'] != t['full']:
            t['lines'] = t['lines'][:-1]             # one line short of min(N, total)
            return t
        return None
    accepted = [t for t in traces if t['kind'] != 'gen' and verdicts[t['tid']][0] == 'ACCEPT']
    selftest = core.binding_selftest('TrExpand.tla', accepted, corrupt, env={'UP_FILE': upfile})
    verdict.matcher('C09-F14-load-limit-ignores-restored-level',
                    lambda w: w.get('flags', {}).get('load') and w.get('cut_inside_markov') and w.get('clause') in ('C09_length', 'C09_prefix'))
    verdict.matcher('C09-F1-banner-empty-line',
                    lambda w: w.get('clause') == 'C09_stdout_is_guess_stream'
                    and w.get('got_head', [None])[:1] == [''] and w.get('got_head')[1:] == w.get('want_head')[:3])
    rc, n_viol, n_known = verdict.finish()
    kinds = {}
    for t in traces:
        kinds[t['kind']] = kinds.get(t['kind'], 0) + 1
    judged = [t for t in traces if t['kind'] != 'gen']
    distinct = len({json.dumps([t.get('groups'), t.get('N'), t.get('lines')], sort_keys=True)
                    for t in judged if len(t['lines']) > 1})
    s = judged[min(3, len(judged) - 1)]
    sample = {'meta': {k: v for k, v in meta[s['tid']].items() if k != 'ruleset'},
              'lines': [''.join(map(chr, x)) for x in s['lines']][:10]}
    cov = {
        'states': mc['states'], 'transitions': mc['transitions'],
        'traces_validated_against_impl': len(judged),
        'samples': [sample], 'model_checking': mc,
        'evaluations': len(traces), 'distinct_nontrivial': distinct,
        'rule': 'pt trace = one real create_guesses call on one pre-terminal; limit trace = one real run with --limit N '
                '(in-process session or CLI subprocess); non-trivial = more than one line; distinct by groups/N/lines',
        'trace_kinds': kinds, 'every_alpha_variable_gets_its_mask': grid_of_files, 'pre_terminals_of_the_shipped_ruleset_expanded': n_shipped_pts, 'rulesets': len(rule_dirs), 'cli_runs': cli_runs,
        'model_pt_space_instantiated': cat['NPT'],
        'impl_conformance': {'traces': kinds.get('gen', 0), 'result': 'drift' if drift else 'conforms',
                             'drift_examples': [core.short(d, 300) for d in drift[:3]]},
        'trace_validation': st, 'exhaustive': False, 'known_findings_reproduced': n_known, 'binding_selftest': selftest,
    }
    core.write_evidence(pid, tier, seed, 'model_checking', cov, time.time() - t0, violations=n_viol,
                        assumptions=['TLC', 'str.upper() as the meaning of mask letter U (UpTable written from Python)',
                                     'Markov pre-terminals: the level string set is judged by C10 (Omen!LevelSet); here it is data',
                                     'CLI runs use an open pipe as stdin (stdin conditions are C12)'])
    return rc
