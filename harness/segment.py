"""Record the real PCFGPasswordParser.parse with snapshots after every detector stage (C05)."""
import copy
import random
from collections import Counter

from . import core

core.use_repo()

STAGES = ['detect_keyboard_walk', 'email_detection', 'website_detection', 'year_detection',
          'context_sensitive_detection', 'alpha_detection', 'digit_detection', 'other_detection']

US = {'row1': list('1234567890-='), 's_row1': list('!@#$%^&*()_+'),
      'row2': list('qwertyuiop[]\\'), 's_row2': list('QWERTYUIOP{}|'),
      'row3': list("asdfghjkl;'"), 's_row3': list('ASDFGHJKL:"'),
      'row4': list('zxcvbnm,./'), 's_row4': list('ZXCVBNM<>?')}
JC = {'row1': list('1234567890-='), 's_row1': list('!"№;%:?*()_+'),
      'row2': list('йцукенгшщзхъ\\'), 's_row2': list('ЙЦУКЕНГШЩЗХЪ/'),
      'row3': list('фывапролджэ'), 's_row3': list('ФЫВАПРОЛДЖЭ'),
      'row4': list('ячсмитьбю'), 's_row4': list('ЯЧСМИТЬБЮ,')}
CONTEXT = [";p", ":p", "*0*", "#1", "No.1", "no.1", "No.", "i<3", "I<3", "<3", "Mr.", "mr.", "MR.", "MS.", "Ms.", "ms.",
           "Mz.", "mz.", "MZ.", "St.", "st.", "Dr.", "dr."]


def kb_positions(ch):
    out = []
    for b, board in ((1, US), (2, JC)):
        for row in (1, 2, 3, 4):
            for key in ('row%d' % row, 's_row%d' % row):
                if ch in board[key]:
                    out.append([b, row, board[key].index(ch)])
    return out


class Ids:
    def __init__(self):
        self.ids = {}
        self.attr = []

    def of(self, ch):
        if ch not in self.ids:
            self.ids[ch] = len(self.ids) + 1
            self.attr.append(None)
            lo = [self.of(x) for x in ch.lower()]
            self.attr[self.ids[ch] - 1] = {'a': ch.isalpha(), 'd': ch.isdigit(), 'u': ch.isupper(), 'lo': lo,
                                           'kb': kb_positions(ch)}
        return self.ids[ch]

    def seq(self, s):
        return [self.of(c) for c in s]


def label(lab):
    if lab is None:
        return '', 0
    kind = lab[0]
    num = lab[1:]
    return kind, int(num) if num else 0


class Recorder:
    """wraps a PCFGPasswordParser; history = list of lower-cased base words seen (first pass)"""

    def __init__(self, training=()):
        from lib_trainer.detection_rules.multiword_detector import MultiWordDetector
        from lib_trainer.pcfg_password_parser import PCFGPasswordParser
        self.mw = MultiWordDetector(threshold=5, min_len=4, max_len=21)
        self.counts = Counter()
        for pw in training:
            self.mw.train(pw)
            # the harness's own statement of "seen as a word": maximal letter runs of at least 4 letters
            run = ''
            for ch in pw.lower() + '\0':
                if ch.isalpha():
                    run += ch
                else:
                    if len(run) >= 4 and 4 <= len(pw) <= 21:
                        self.counts[run] += 1
                    run = ''
        self.parser = PCFGPasswordParser(self.mw)

    def counters(self):
        p = self.parser
        out = {}
        for name, c in (('alpha', p.count_alpha), ('mask', p.count_alpha_masks), ('digit', p.count_digits),
                        ('other', p.count_other), ('keyboard', p.count_keyboard)):
            for n, cc in c.items():
                for k, v in cc.items():
                    out[(name, n, k)] = v
        for name, c in (('year', p.count_years), ('context', p.count_context_sensitive), ('base', p.count_base_structures),
                        ('raw', p.count_raw_base_structures), ('prince', p.count_prince)):
            for k, v in c.items():
                out[(name, 0, k)] = v
        return out

    def parse(self, pw, tid):
        import lib_trainer.pcfg_password_parser as pp
        ids = Ids()
        snaps = [{'st': 'input', 'sl': [{'t': ids.seq(pw), 'k': '', 'n': 0}]}]
        orig = {}

        def snap(name, sl):
            out = []
            for sec in sl:
                k, n = label(sec[1])
                out.append({'t': ids.seq(sec[0]), 'k': k, 'n': n})
            snaps.append({'st': name, 'sl': out})

        def wrap(name):
            f = orig[name]
            if name == 'detect_keyboard_walk':
                def w(password, *a, **kw):
                    r = f(password, *a, **kw)
                    snap(name, r[0])
                    return r
            else:
                def w(section_list, *a, **kw):
                    r = f(section_list, *a, **kw)
                    snap(name, section_list)
                    return r
            return w
        for name in STAGES:
            orig[name] = getattr(pp, name)
            setattr(pp, name, wrap(name))
        before = self.counters()
        raised = None
        try:
            import contextlib
            import io
            with contextlib.redirect_stdout(io.StringIO()):
                self.parser.parse(pw)
        except Exception as ex:
            raised = repr(ex)
        finally:
            for name in STAGES:
                setattr(pp, name, orig[name])
        after = self.counters()
        delta = []
        base = []
        raw = []
        prince = []

        def codes(struct):
            import re
            return [[m.group(1), int(m.group(2)) if m.group(2) else 0] for m in re.finditer(r'([A-Z])([0-9]*)', struct)]
        for key, v in after.items():
            dv = v - before.get(key, 0)
            if dv <= 0:
                continue
            name, n, k = key
            if name == 'base':
                base = codes(k)
            elif name == 'raw':
                raw = codes(k)
            elif name == 'prince':
                prince += codes(k) * dv
            elif name == 'mask':
                delta.append({'c': name, 'n': n, 'key': [1 if x == 'U' else 0 for x in k], 'v': dv})
            else:
                delta.append({'c': name, 'n': n, 'key': ids.seq(k), 'v': dv})
        words = set()
        if snaps:
            # every word the clauses may ask about: lower-cased alpha sections and their concatenations
            fin = snaps[-1]['sl']
        cnt = [[ids.seq(w), c] for w, c in self.counts.items() if all(ch in ids.ids or True for ch in w)]
        # only words made of characters of this password can matter
        pwl = set(pw.lower())
        cnt = [[ids.seq(w), c] for w, c in self.counts.items() if set(w) <= pwl]
        ctx = [ids.seq(c) for c in CONTEXT if all(ch in ids.ids for ch in c)]
        g = lambda ch: ids.ids.get(ch, 0)
        return {'tid': tid, 'pw': ids.seq(pw), 'attr': ids.attr, 'snaps': snaps, 'cnt': cnt, 'thr': 5, 'minlen': 4,
                'ctx': ctx, 'delta': delta, 'base': base, 'raw': raw, 'prince': prince,
                'one': g('1'), 'nine': g('9'), 'two': g('2'), 'zero': g('0'), 'raised': raised is not None}, raised


FRAGMENTS = ['pass', 'word', 'Word', 'PASS', 'love', 'monkey', 'a', 'Ab', 'x', '1', '12', '123', '2019', '1987', '20199', '007',
             '!', '!!', ' ', '#1', '<3', 'No.1', 'Mr.', '*0*', ';p', 'qwer', '1qaz', 'zaq1', 'asdf', 'qwerty', '!@#$', 'йцук',
             '.com', 'www.', 'google.com', 'bob@aol.com', '@', '.', 'http://', '/', 'Admin', '#A', '_ROOT', 'é', 'ß', 'ǅ', 'Я', 'пароль', '٣', '²',
             '\U0001F600', 'e', 'r', 'ty', 'tty', '20', '19', '99', '07', '.org', '.net', 'ics', 'munity', 'www.com']


def random_password(rng, with_dotted_i=False):
    frags = FRAGMENTS + (['İ', 'İ.com', 'aİb'] if with_dotted_i else [])
    n = rng.randint(1, 4)
    pw = ''.join(rng.choice(frags) for _ in range(n))
    if rng.random() < 0.05:
        k = rng.choice(['1qaz', 'zaq1', 'qwer12', '1q2w', 'йцук12'])
        pw = k + rng.choice(['', '!', 'x', '12']) + k + rng.choice(['', '!', 'xy'])       # the same walk twice; one trailing character
    return pw[:21] if len(pw) > 21 else pw
