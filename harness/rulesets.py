"""Write abstract ruleset descriptions to disk in the trainer's on-disk format, and a
neutral (harness-owned) reader of rule files used as independent oracle data."""
import json
import os

SECTIONS = [('BASE_A', 'A', 'Alpha'), ('BASE_D', 'D', 'Digits'), ('BASE_O', 'O', 'Other'),
            ('BASE_K', 'K', 'Keyboard'), ('BASE_X', 'X', 'Context'), ('BASE_Y', 'Y', 'Years'),
            ('CAPITALIZATION', 'C', 'Capitalization')]
DIR_OF = {n: d for _, n, d in SECTIONS}


def write_ruleset(path, terminals, base, prince=None, omen=None, encoding='utf-8',
                  uuid='00000000-0000-0000-0000-000000000001', version='4.7',
                  omen_prob=None, omen_keyspace=None, newline='\n'):
    """terminals: {'A3': [(value, prob), ...] in file order, 'C3': [...], 'D1': ...}
    base / prince: [(structure string e.g. 'A3D1' or 'M', prob), ...] in file order
    omen: dict(ngram, alphabet[list], ip{str:level}, cp{str:level}, ep{str:level}, ln[list of levels, index 0 = length 1])
    omen_prob: [(level, prob)] lines of Omen/pcfg_omen_prob.txt ; omen_keyspace: [(level, n)]
    probabilities are written with repr() like the trainer does (str(float))."""
    os.makedirs(path, exist_ok=True)
    files = {n: [] for _, n, _ in SECTIONS}
    for name, items in terminals.items():
        cat, idx = name[0], name[1:]
        d = os.path.join(path, DIR_OF[cat])
        os.makedirs(d, exist_ok=True)
        fn = idx + '.txt'
        files[cat].append(fn)
        with open(os.path.join(d, fn), 'w', encoding=encoding, newline='') as f:
            for value, prob in items:
                f.write(value + '\t' + fmt(prob) + newline)
    for _, n, d in SECTIONS:
        os.makedirs(os.path.join(path, d), exist_ok=True)
    with open(os.path.join(path, 'config.ini'), 'w') as f:
        f.write('[TRAINING_PROGRAM_DETAILS]\nversion = %s\n\n' % version)
        f.write('[TRAINING_DATASET_DETAILS]\nencoding = %s\nuuid = %s\n\n' % (encoding, uuid))
        for sec, n, d in SECTIONS:
            f.write('[%s]\nname = %s\ndirectory = %s\nfilenames = %s\n\n'
                    % (sec, n, d, json.dumps(files[n])))
    os.makedirs(os.path.join(path, 'Grammar'), exist_ok=True)
    with open(os.path.join(path, 'Grammar', 'grammar.txt'), 'w', newline='') as f:
        for s, p in base:
            f.write(s + '\t' + fmt(p) + newline)
    os.makedirs(os.path.join(path, 'Prince'), exist_ok=True)
    with open(os.path.join(path, 'Prince', 'grammar.txt'), 'w', newline='') as f:
        for s, p in (prince or []):
            f.write(s + '\t' + fmt(p) + newline)
    for d, fn in (('Emails', 'email_providers.txt'), ('Websites', 'website_hosts.txt')):
        os.makedirs(os.path.join(path, d), exist_ok=True)
        open(os.path.join(path, d, fn), 'w').close()
    write_omen(os.path.join(path, 'Omen'), omen or DEFAULT_OMEN, encoding)
    with open(os.path.join(path, 'Omen', 'pcfg_omen_prob.txt'), 'w') as f:
        for lvl, p in (omen_prob or []):
            f.write('%s\t%s\n' % (lvl, fmt(p)))
    with open(os.path.join(path, 'Omen', 'omen_keyspace.txt'), 'w') as f:
        for lvl, k in (omen_keyspace or []):
            f.write('%s\t%s\n' % (lvl, k))
    return path


def fmt(p):
    return p if isinstance(p, str) else repr(float(p))


DEFAULT_OMEN = dict(ngram=2, alphabet=['a', 'b'], ip={'a': 0, 'b': 1},
                    cp={'aa': 0, 'ab': 1, 'ba': 0, 'bb': 2}, ep={'a': 0, 'b': 0}, ln=[10, 0, 1])


def write_omen(d, omen, encoding='utf-8', order=None, final_newline=True):
    """order: how the lines of IP / CP / EP.level are arranged - None (as given: grouped by context, as the trainer writes them),
    'by_level' (sort -n), 'reversed'.  The format has no ordering rule; the meaning of the files is the set of their lines."""
    os.makedirs(d, exist_ok=True)
    with open(os.path.join(d, 'config.txt'), 'w') as f:
        f.write('[training_settings]\nngram = %d\nencoding = %s\n' % (omen['ngram'], encoding))
    with open(os.path.join(d, 'alphabet.txt'), 'w', encoding=encoding) as f:
        for a in omen['alphabet']:
            f.write(a + '\n')
    for name in ('ip', 'cp', 'ep'):
        with open(os.path.join(d, name.upper() + '.level'), 'w', encoding=encoding) as f:
            items = list(omen[name].items())
            if order == 'by_level':
                items.sort(key=lambda kv: (kv[1], kv[0][::-1]))
            elif order == 'reversed':
                items.reverse()
            for k, lvl in items:
                f.write('%d\t%s\n' % (lvl, k))
    with open(os.path.join(d, 'LN.level'), 'w') as f:
        for lvl in omen['ln']:
            f.write('%d\n' % lvl)
    if not final_newline:
        # the last line of a text file need not be terminated
        for name in ('IP.level', 'CP.level', 'EP.level', 'LN.level', 'alphabet.txt'):
            fn = os.path.join(d, name)
            with open(fn, 'rb') as f:
                data = f.read()
            if data.endswith(b'\n'):
                with open(fn, 'wb') as f:
                    f.write(data[:-1])


# --------------------------------------------------------------------------
# neutral reader: bytes -> records, splitting on LF only, no stripping beyond the final LF/CRLF.
# This is the harness's own statement of what the line format *means*; it shares no code with
# the loaders under test.
# --------------------------------------------------------------------------
def neutral_read(path, encoding='utf-8'):
    with open(path, 'rb') as f:
        data = f.read()
    text = data.decode(encoding, errors='surrogateescape')
    lines = text.split('\n')
    if lines and lines[-1] == '':
        lines.pop()
    out = []
    for ln in lines:
        if ln.endswith('\r'):
            ln = ln[:-1]
        out.append(ln)
    return out


def neutral_value_prob(path, encoding='utf-8'):
    recs = []
    for ln in neutral_read(path, encoding):
        i = ln.rfind('\t')
        recs.append((ln[:i], ln[i + 1:]))
    return recs
