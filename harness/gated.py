"""Deterministic scheduling of the real keyboard thread and the real CrackingSession.run loop.

Both run in real threads; each stops at *gates* installed from outside (module namespace substitution,
instance attributes, a property for should_exit) and is released one gate-to-gate step at a time by the
driver.  A schedule is the sequence of thread names the driver released."""
import contextlib
import io
import os
import sys
import threading
import types

from . import core

core.use_repo()


class Abort(BaseException):
    pass


class Sched:
    def __init__(self):
        self.cv = threading.Condition()
        self.at = {}        # thread -> (gate, info) while parked
        self.go = None
        self.done = set()
        self.abort = False
        self.log = []       # (thread, gate, info) in release order, plus ('M','emitted',guess) etc.

    def gate(self, who, name, info=None):
        with self.cv:
            self.at[who] = (name, info)
            self.cv.notify_all()
            while self.go != who and not self.abort:
                self.cv.wait(timeout=30)
            if self.abort:
                self.at.pop(who, None)
                raise Abort()
            self.go = None
            del self.at[who]
            self.log.append((who, name, info))
            self.cv.notify_all()

    def finish(self, who):
        with self.cv:
            self.done.add(who)
            self.cv.notify_all()

    def parked(self, who, timeout=20):
        """wait until `who` is parked at a gate or finished; returns gate tuple or None (finished)"""
        with self.cv:
            ok = self.cv.wait_for(lambda: self.go is None and (who in self.at or who in self.done), timeout=timeout)
            if not ok:
                raise core.MachineryError('thread %s neither parked nor finished (at=%s done=%s)' % (who, self.at, self.done))
            if who in self.at:
                return self.at[who]
            return None

    def release(self, who):
        with self.cv:
            self.go = who
            self.cv.notify_all()

    def stop_all(self):
        with self.cv:
            self.abort = True
            self.cv.notify_all()


def who():
    return threading.current_thread().name


class GatedRun:
    """One session of the real code under a scripted keyboard and an explicit schedule."""

    def __init__(self, pcfg, save_config, save_filename, script, load=False, limit=None, status_ok=True, age=None):
        self.pcfg = pcfg
        self.cfg = save_config
        self.fn = save_filename
        self.script = list(script)      # values for input(): '', 'h', 'q', 'x'..., 'EOF', 'block'
        self.load = load
        self.limit = limit
        self.sched = Sched()
        self.lines = []
        self.q_consumed = False
        self.saves = 0
        self.error = None
        self.kbd_started = False
        self.age = age          # total guessing time (seconds) the status report starts from

    # ---- the substitutions ----
    def _install(self):
        import lib_guesser.cracking_session as cs
        from lib_guesser.priority_queue import PcfgQueue
        from lib_guesser.pcfg_grammar import PcfgGrammar
        run = self
        sched = self.sched

        class GThread(threading.Thread):
            def __init__(self, target=None, args=()):
                def body():
                    try:
                        sched.gate('K', 'start')
                        target(*args)
                    except Abort:
                        pass
                    finally:
                        sched.finish('K')
                threading.Thread.__init__(self, target=body, name='K')

            def start(self):
                run.kbd_started = True
                threading.Thread.start(self)
                # a scheduling point right after the thread exists and before run() goes on
                sched.gate('M', 'thread_started')

            def is_alive(self):
                sched.gate('M', 'read_alive')
                return 'K' not in sched.done

        class FakeMain:
            def is_alive(self):
                return True

        def fake_input(*a):
            sched.gate('K', 'input', run.script[0] if run.script else 'block')
            v = run.script.pop(0) if run.script else 'block'
            if v == 'block':
                # never returns: park until the run is torn down
                sched.gate('K', 'blocked_forever')
                raise Abort()
            if v == 'EOF':
                raise EOFError('EOF when reading a line')
            if v == 'q':
                run.q_consumed = True
            return v

        def fake_sleep(t):
            sched.gate('K', 'sleep')

        class GQueue(PcfgQueue):
            def next(self):
                sched.gate('M', 'pop')
                return PcfgQueue.next(self)

        self._saved = (cs.threading, cs.PcfgQueue, cs.__dict__.get('input'), cs.time)
        cs.threading = types.SimpleNamespace(Thread=GThread, main_thread=lambda: FakeMain())
        cs.PcfgQueue = GQueue
        cs.input = fake_input
        cs.time = types.SimpleNamespace(sleep=fake_sleep)

        base = self.pcfg.__class__

        class G(base):
            def _get(s):
                if who() == 'M':
                    sched.gate('M', 'read_exit')
                return s.__dict__.get('_should_exit', False)

            def _set(s, v):
                if who() == 'K':
                    sched.gate('K', 'set_exit')
                s.__dict__['_should_exit'] = v
            should_exit = property(_get, _set)
        self.pcfg.__dict__.pop('should_exit', None)
        self.pcfg.__dict__['_should_exit'] = False
        self._base = base
        self.pcfg.__class__ = G
        self.pcfg.omen_exit = False

        def capture(guess):
            sched.gate('M', 'emit', guess)
            run.lines.append(guess)
        self.pcfg.print_guess = capture

    def _uninstall(self):
        import lib_guesser.cracking_session as cs
        cs.threading, cs.PcfgQueue, inp, cs.time = self._saved
        if inp is None:
            cs.__dict__.pop('input', None)
        else:
            cs.input = inp
        self.pcfg.__class__ = self._base
        self.pcfg.__dict__.pop('_should_exit', None)
        self.pcfg.should_exit = False

    # ---- running ----
    def run(self, chooser, max_steps=5000):
        """chooser(enabled: list of threads, step index, gates dict) -> thread to release.
        Returns dict(lines, schedule, log, q_consumed, finished)."""
        import lib_guesser.cracking_session as cs
        from . import session as _s
        _s.stamp_uuid(self.cfg, self.pcfg)
        self._install()
        if self.age is not None and self.load and self.cfg.has_section('session_info'):
            self.cfg.set('session_info', 'running_time', str(int(self.age)))
        sess = cs.CrackingSession(self.pcfg, self.cfg, self.fn)
        if self.age is not None and not self.load:
            sess.report.past_guessing_time = int(self.age)
        orig_save = sess._save_session

        def gsave():
            self.sched.gate('M', 'save')
            self.saves += 1
            return orig_save()
        sess._save_session = gsave
        orig_status = sess.report.print_status

        def gstatus(pcfg):
            self.sched.gate('K', 'status')
            return orig_status(pcfg)
        sess.report.print_status = gstatus
        self.session = sess
        err = io.StringIO()

        def mbody():
            try:
                self.sched.gate('M', 'start')
                sess.run(load_session=self.load, limit=self.limit)
            except Abort:
                pass
            except BaseException as ex:  # the real code raised in the main thread
                self.error = repr(ex)
            finally:
                self.sched.finish('M')
        schedule = []
        mt = threading.Thread(target=mbody, name='M', daemon=True)
        real_stderr = sys.stderr
        sys.stderr = err
        real_stdout = sys.stdout
        out = io.StringIO()
        sys.stdout = out      # guesses go through the captured print_guess; anything arriving here is not a guess
        try:
            mt.start()
            steps = 0
            while steps < max_steps:
                gm = self.sched.parked('M')
                if gm is None:
                    break            # main thread finished: the process would exit (daemon thread dies)
                enabled = ['M']
                gates = {'M': gm}
                if self.kbd_started and 'K' not in self.sched.done:
                    gk = self.sched.parked('K')
                    if gk is not None and gk[0] != 'blocked_forever' and not (gk[0] == 'input' and gk[1] == 'block'):
                        enabled.append('K')
                        gates['K'] = gk
                t = chooser(enabled, steps, gates)
                schedule.append(t)
                self.sched.release(t)
                self.sched.parked(t)
                steps += 1
            finished = self.sched.parked('M') is None
        finally:
            self.sched.stop_all()
            mt.join(timeout=5)
            sys.stderr = real_stderr
            sys.stdout = real_stdout
            self._uninstall()
        # the keyboard thread ended although the user's script still holds a 'q' (and no end of input before it): whatever killed
        # it - the code swallows every exception of that thread - has made the quit impossible.  (Sessions that restore an
        # interrupted Markov level are exempt: there a status request may end the thread while the placeholder pre-terminal is
        # installed - Session.tla, KStatus.)
        rest = list(self.script)
        died = ('K' in self.sched.done) and ('q' in rest) and ('EOF' not in rest[:rest.index('q')]) and not self.q_consumed
        if died and not self.load and finished:
            core.PENDING_RAISES.append({'error': "the keyboard thread ended before it read the user's q", 'clause': 'C12_quit_is_not_made_impossible',
                                        'via': 'gated two-thread session', 'script_left': rest, 'schedule': ''.join(schedule)[:80],
                                        'lines_written': len(self.lines)})
        if self.error:
            core.PENDING_RAISES.append({'error': self.error, 'via': 'gated two-thread session', 'load': bool(self.load), 'script': self.script,
                                        'schedule': ''.join(schedule)[:60], 'lines_written': len(self.lines)})
        return {'lines': list(self.lines), 'schedule': schedule, 'log': list(self.sched.log),
                'q_consumed': self.q_consumed, 'finished': finished, 'error': self.error,
                'saves': self.saves, 'stderr': err.getvalue(), 'stdout_noise': out.getvalue()}


def main_first(enabled, step, gates):
    return 'M'


def make_chooser(prefix, default='M'):
    """follow `prefix` (list of thread names) while it lasts and is enabled, then `default`"""
    def ch(enabled, step, gates):
        if step < len(prefix) and prefix[step] in enabled:
            return prefix[step]
        return default if default in enabled else enabled[0]
    return ch
