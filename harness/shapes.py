"""A shared library of SPECIAL ruleset shapes.  Every shape here was needed at some point to expose a seeded change
(see DESIGN.md 0.3); keeping them in one place lets every ruleset-consuming check run on all of them."""
import os

from . import rulesets, expand, ptq


def tied_omen_levels(rng, path):
    """OMEN levels of exactly equal probability stay separate groups: a child of the Markov structure ties its parent"""
    terminals = {'D1': [('1', 0.5), ('2', 0.25), ('3', 0.25)], 'O1': [('!', 0.75), ('?', 0.25)],
                 'K4': [('1qaz', 0.5), ('zaq1', 0.5)], 'Y1': [('1999', 0.6), ('2020', 0.4)]}
    base = [('Y1', 0.18), ('D1', 0.17), ('M', 0.14), ('K4', 0.13), ('O1', 0.10), ('D1O1', 0.07)]
    rulesets.write_ruleset(path, terminals, base, omen_prob=[(1, 0.5), (2, 0.5), (3, 0.25), (4, 0.25), (5, 0.125)],
                           omen_keyspace=[(l, 1) for l in range(1, 6)])
    return {'terminals': terminals, 'base': base, 'kind': 'tied OMEN levels'}


def omen_unordered(rng, path):
    """the most probable OMEN level is not level 1: pcfg_omen_prob.txt is sorted by probability, not by level number"""
    terminals = {'D1': [('1', 0.5), ('2', 0.25), ('3', 0.125), ('4', 0.125)]}
    base = [('D1', 0.5), ('M', 0.5)]
    rulesets.write_ruleset(path, terminals, base, omen_prob=[(3, 0.5), (1, 0.25), (4, 0.15), (2, 0.125)],
                           omen_keyspace=[(l, 1) for l in range(1, 5)])
    return {'terminals': terminals, 'base': base, 'kind': 'OMEN levels not in level order', 'omen_prob': [(3, 0.5), (1, 0.25), (4, 0.15), (2, 0.125)]}


def repeated_types(rng, path):
    terminals = {'D1': [('1', 0.5), ('2', 0.3), ('3', 0.2)], 'A2': [('ab', 0.5), ('cd', 0.5)], 'C2': [('LL', 0.75), ('UL', 0.25)],
                 'O1': [('!', 0.6), ('#', 0.4)]}
    base = [('D1D1', 0.3), ('A2D1A2', 0.25), ('D1O1D1', 0.2), ('A2A2', 0.15), ('D1D1D1', 0.1)]
    rulesets.write_ruleset(path, terminals, base, prince=[('D1', 0.5), ('A2', 0.3), ('O1', 0.2)])
    return {'terminals': terminals, 'base': base, 'kind': 'repeated variable types'}


def three_digit(rng, path):
    terminals = {'A101': [('abcdefghij' * 10 + 'k', 1.0)], 'C101': [('L' * 101, 0.75), ('U' + 'L' * 100, 0.25)],
                 'A10': [('strawberry', 0.5), ('basketball', 0.5)], 'C10': [('L' * 10, 1.0)], 'D2': [('12', 0.5), ('99', 0.5)]}
    base = [('A10D2', 0.5), ('A101', 0.3), ('A101D2', 0.2)]
    rulesets.write_ruleset(path, terminals, base, prince=[('A10', 0.5), ('A101', 0.3), ('D2', 0.2)])
    return {'terminals': terminals, 'base': base, 'kind': 'three-digit length'}


def m_positions(rng, path_prefix):
    """Markov structure first / middle / last / tiny / heavy (0.9, 0.8: p / (1 - P(M)) rounds above 1.0)"""
    out = []
    term = {'A2': [('ab', 0.5), ('cd', 0.25)], 'C2': [('LL', 0.75), ('UL', 0.25)], 'D1': [('1', 0.5), ('2', 0.5)]}
    term1 = {'A2': [('ab', 1.0)], 'C2': [('LL', 1.0)], 'D1': [('7', 1.0)]}
    for name, t, base in (('m_first', term, [('M', 0.5), ('A2', 0.25), ('A2D1', 0.25)]),
                          ('m_middle', term, [('A2', 0.5), ('M', 0.25), ('A2D1', 0.25)]),
                          ('m_last', term, [('A2', 0.5), ('A2D1', 0.25), ('M', 0.25)]),
                          ('m_heavy_09', term1, [('M', 0.9), ('A2', 0.1)]),
                          ('m_heavy_08', term1, [('M', 0.8), ('D1', 0.2)])):
        d = path_prefix + name
        rulesets.write_ruleset(d, t, base, omen_prob=[(1, 0.5), (2, 0.25)], omen_keyspace=[(1, 1), (2, 1)])
        out.append((d, {'kind': name, 'base': base, 'terminals': t}))
    return out


def all_special(rng, work):
    """-> [(dir, desc)] of every special shape"""
    out = []
    for name, fn in (('long_alpha', expand.long_alpha_ruleset), ('near_tie', expand.near_tie_ruleset), ('tie_group', expand.tie_group_ruleset),
                     ('dyadic', expand.dyadic_prince_ruleset), ('dense_omen', expand.dense_omen_ruleset), ('tied_levels', tied_omen_levels),
                     ('repeated', repeated_types), ('three_digit', three_digit), ('rich', expand.rich_ruleset), ('omen_unordered', omen_unordered)):
        d = os.path.join(work, 'sp_' + name)
        desc = fn(rng, d)
        out.append((d, dict(desc, shape=name)))
    out += m_positions(rng, os.path.join(work, 'sp_'))
    return out
