"""C01 / C02 / C08: pre-terminal order, exactly-once, resume.  Model: spec/PTQueue.tla."""
import json
import os
import random
import subprocess
import time

from . import core, ptq

MODES = {'C01': 'C01', 'C02': 'C02', 'C08': 'C08'}


MC_CFGS = {'quick': ['MC_PTQueue_quick.cfg', 'MC_PTQueue_quick2.cfg'],
           'thorough': ['MC_PTQueue_quick2.cfg', 'MC_PTQueue_thorough.cfg']}


def mc_stage(pid, tier):
    """exhaustive model checking of the I-layer against the P-layer invariants"""
    mod = os.path.join(core.SPEC, 'MC_PTQueue.tla')
    out = {'configs': [], 'states': 0, 'transitions': 0}
    cfgs = []
    for name in MC_CFGS[tier]:
        cfg = os.path.join(core.SPEC, name)
        r = core.tlc_must_pass(mod, cfg, 'PTQueue %s' % name, timeout=3000, coverage=(name == 'MC_PTQueue_quick.cfg'))
        out['configs'].append({'cfg': name, 'states': r.distinct, 'transitions': r.generated, 'depth': r.depth,
                               'wall_s': round(r.wall, 1), 'action_coverage': r.coverage()})
        out['states'] += r.distinct
        out['transitions'] += r.generated
        cfgs.append(cfg)
    if tier == 'thorough':
        out['large_grammars'] = large_grammar_mc()
        out['states'] += out['large_grammars']['states']
        out['transitions'] += out['large_grammars']['transitions']
    if pid == 'C02':
        # termination under weak fairness (liveness), uninterrupted runs
        cfg2 = os.path.join(core.SPEC, 'MC_PTQueue_live.cfg')
        r2 = core.tlc_must_pass(mod, cfg2, 'PTQueue liveness', timeout=1200)
        out['liveness'] = {'cfg': 'MC_PTQueue_live.cfg', 'states': r2.distinct, 'property': 'Terminates'}
    return out, cfgs


def large_grammar_mc(n=12, seed=0):
    """beyond the exhaustive grammar space: random larger grammars (3 variable types, structures of length up to 4, two
    structures), each model-checked exhaustively over every tie choice, cut point and cycle (MC_PTQueue_file)"""
    import json as _json
    from concurrent.futures import ThreadPoolExecutor
    rng = random.Random(seed + 77)
    d = core.scratch('gfile')
    jobs = []
    for k in range(n):
        while True:
            W = []
            for t in range(3):
                g = rng.randint(1, 3)
                W.append(sorted(rng.sample(range(1, 5), g), reverse=True))
            S = []
            for sidx in range(rng.randint(1, 2)):
                S.append({'t': [rng.randint(1, 3) for _ in range(rng.randint(2, 4))], 'b': rng.randint(1, 2)})
            S.sort(key=lambda x: -x['b'])
            nodes = 0
            for st in S:
                k_ = 1
                for t in st['t']:
                    k_ *= len(W[t - 1])
                nodes += k_
            if 12 <= nodes <= 54:         # every cut point x every cycle x every tie choice is explored: keep the grammar small enough
                break
        fn = os.path.join(d, 'g%d.json' % k)
        with open(fn, 'w') as f:
            _json.dump({'W': W, 'S': S}, f)
        jobs.append(fn)

    def run(fn):
        return core.tlc(os.path.join(core.SPEC, 'MC_PTQueue_file.tla'), os.path.join(core.SPEC, 'MC_PTQueue_file.cfg'),
                        workers=8, timeout=1500, env={'G_FILE': fn})
    with ThreadPoolExecutor(2) as ex:
        res = list(ex.map(run, jobs))
    unfinished = [r for r in res if r.rc == 124]
    res = [r for r in res if r.rc != 124]
    bad = [r for r in res if not r.ok]
    if bad:
        raise core.ModelViolation('PTQueue on a larger grammar', bad[0])
    return {'cfg': 'MC_PTQueue_file.cfg', 'grammars': len(res), 'not_finished_in_time': len(unfinished), 'states': sum(r.distinct for r in res), 'transitions': sum(r.generated for r in res)}


def second_run(jobs):
    """emitted sequences from a fresh interpreter with another hash seed"""
    inp = ''.join(json.dumps(j) + '\n' for j in jobs)
    env = dict(os.environ)
    env['PYTHONHASHSEED'] = '12345'
    env['PYTHONDONTWRITEBYTECODE'] = '1'
    p = subprocess.run([core.PY, '-m', 'harness.ptq_worker'], input=inp, cwd=core.VERIF, env=env,
                       stdout=subprocess.PIPE, stderr=subprocess.PIPE, text=True, timeout=1800)
    if p.returncode != 0:
        raise core.MachineryError('ptq_worker failed: ' + p.stderr[-1500:])
    return [json.loads(l) for l in p.stdout.splitlines()]


def cut_sequences(nnodes, tier, rng, two_cycle_budget):
    """all single cut points; a sample of double and triple cuts"""
    seqs = [[k] for k in range(nnodes)]
    pairs = [[a, b] for a in range(nnodes) for b in range(max(1, nnodes - a))]
    rng.shuffle(pairs)
    seqs += pairs[:two_cycle_budget]
    if nnodes >= 3:
        for _ in range(max(1, two_cycle_budget // 4)):
            seqs.append([rng.randrange(nnodes), rng.randrange(nnodes), rng.randrange(nnodes)])
    return seqs


def main(pid, tier, seed):
    t0 = time.time()
    rng = random.Random(seed)
    mode = MODES[pid]
    verdict = core.Verdict(pid)
    mc, mc_cfgs = mc_stage(pid, tier)

    grammars = []
    for c in mc_cfgs:
        for g in ptq.export_grammars(c):
            if g not in grammars:
                grammars.append(g)
    work = core.scratch('rules')
    ptraces, itraces, meta = [], [], {}
    tid = 0
    det_jobs = []

    def add(pcfg, hist, exact, g, m, ev2=None, bad=()):
        nonlocal tid
        tid += 1
        try:
            p, i = ptq.to_traces(tid, pcfg, hist, mode, exact=exact, int_grammar=g, ev2=ev2, bad_groups=bad)
        except (KeyError, ZeroDivisionError, IndexError) as ex:
            # the history cannot be expressed over the grammar's own grid of pre-terminals: the grammar object no longer has the
            # base structures it was loaded with (or emitted something outside them) - the stream is not a function of the ruleset
            tid -= 1
            if len(core.PENDING_RAISES) < 10:
                core.PENDING_RAISES.append({'error': repr(ex), 'clause': pid + '_stream_is_a_function_of_the_ruleset', 'via': 'recorded history of the real queue',
                                            'emitted': sum(len(s_['ev']) for s_ in hist.get('sessions', [])), 'meta': core.short(m, 200)})
            return {'ev2': None, 'tid': -1}
        ptraces.append(p)
        if i is not None:
            itraces.append(i)
        meta[tid] = m
        return p

    # ---- spec -> code: every grammar of the model-checked space as a real ruleset ----
    n_int = 0
    for gi, g in enumerate(grammars):
        d = os.path.join(work, 'g%d' % gi)
        ptq.ruleset_from_int_grammar(g, d, seed=gi)
        pcfg = ptq.load_pcfg(d)
        nn = ptq.n_nodes(ptq.sizes_of(pcfg))
        n_int += 1
        if pid in ('C01', 'C02'):
            hist = ptq.run_history(pcfg, [])
            p = add(pcfg, hist, True, g, {'kind': 'int_grammar', 'grammar': g, 'cuts': []})
            if pid == 'C01' and (tier == 'thorough' or gi % 5 == 0):
                det_jobs.append((p, {'dir': d, 'exact': True}))
        else:
            budget = 6 if tier == 'quick' else 25
            for cuts in cut_sequences(nn, tier, rng, budget):
                hist = ptq.run_history(pcfg, cuts)
                add(pcfg, hist, True, g, {'kind': 'int_grammar', 'grammar': g, 'cuts': cuts})

    # ---- code -> spec: float rulesets, flags, Prince folder ----
    n_float = 60 if tier == 'quick' else 1200
    flagsets = [dict(), dict(skip_brute=True), dict(skip_case=True), dict(folder='Prince'),
                dict(skip_brute=True, skip_case=True), dict(folder='Prince', skip_case=True)]
    from . import shapes
    fsets = []
    for fi in range(n_float):
        d = os.path.join(work, 'f%d' % fi)
        fsets.append((d, ptq.random_float_ruleset(rng, d), False))
    fsets += [(d, desc, True) for d, desc in shapes.all_special(rng, work)]        # the shared special shapes, under every flag set
    for fi, (d, desc, special) in enumerate(fsets):
        for flags in (flagsets if (pid == 'C01' or special) else [rng.choice(flagsets)]):
            try:
                pcfg = ptq.load_pcfg(d, **flags)
            except Exception:
                # loader defects under flags are C14's business (e.g. skip_brute without an M line)
                continue
            sizes = ptq.sizes_of(pcfg)
            nn = ptq.n_nodes(sizes)
            if nn == 0 or nn > 600:
                continue
            m = {'kind': 'float_ruleset', 'ruleset': desc, 'flags': flags}
            if pid in ('C01', 'C02'):
                hist = ptq.run_history(pcfg, [], with_queue=False)
                if pid == 'C01' and fi % 5 == 0:
                    again = ptq.run_history(pcfg, [], with_queue=False)
                    a_ = [(tuple(map(tuple, it['pt'])), it['prob']) for it, _ in hist['sessions'][0]['ev']]
                    b_ = [(tuple(map(tuple, it['pt'])), it['prob']) for it, _ in again['sessions'][0]['ev']]
                    if a_ != b_ and len(core.PENDING_RAISES) < 10:
                        core.PENDING_RAISES.append({'error': 'a second run on the same loaded grammar emitted %d pre-terminals, the first %d' % (len(b_), len(a_)),
                                                    'clause': 'C01_deterministic_function_of_ruleset_and_flags', 'via': 'two queues on one grammar object',
                                                    'flags': flags})
                bad = set(ptq.file_disagreements(d, pcfg)) if pid == 'C01' and not flags.get('skip_case') else set()
                if pid == 'C01':
                    bad |= ptq.base_disagreements(d, pcfg, flags.get('folder', 'Grammar'), flags.get('skip_brute', False))
                p = add(pcfg, hist, False, None, dict(m, cuts=[], groups_disagreeing_with_files=sorted(map(str, bad))), bad=bad)
                if pid == 'C01' and fi % 4 == 0:
                    det_jobs.append((p, {'dir': d, 'flags': flags, 'exact': False}))
            else:
                k = 4 if tier == 'quick' else 8
                seqs = [[rng.randrange(nn)] for _ in range(k)] + \
                       [[rng.randrange(nn), rng.randrange(nn)] for _ in range(k // 2)] + \
                       [[rng.randrange(nn), rng.randrange(nn), rng.randrange(nn)]]
                for cuts in seqs:
                    hist = ptq.run_history(pcfg, cuts, with_queue=False)
                    add(pcfg, hist, False, None, dict(m, cuts=cuts))

    # ---- one wide ruleset re-weighted in memory many times: many unrelated heap items + children that tie their parent ----
    n_rew = 0
    if pid in ('C01', 'C02'):
        d = os.path.join(work, 'wide')
        ptq.wide_ruleset(d)
        pcfg = ptq.load_pcfg(d)
        full = None
        for k in range(500 if tier == 'quick' else 8000):
            full = ptq.reweight(pcfg, rng, full)
            hist = ptq.run_history(pcfg, [], with_queue=False)
            add(pcfg, hist, False, None, {'kind': 'wide ruleset re-weighted in memory', 'base': [[b['replacements'][0], b['prob']] for b in pcfg.base],
                                          'groups': {t: [g['prob'] for g in gs] for t, gs in pcfg.grammar.items() if gs and t[0] not in 'EW'}})
            n_rew += 1

    if pid == 'C08':
        # the same wide ruleset, re-weighted in memory, quit and resumed at random pops (1-3 cycles)
        d = os.path.join(work, 'wide')
        ptq.wide_ruleset(d)
        pcfg = ptq.load_pcfg(d)
        full = None
        for k in range(300 if tier == 'quick' else 5000):
            full = ptq.reweight(pcfg, rng, full)
            nn = ptq.n_nodes(ptq.sizes_of(pcfg))
            cuts = [rng.randrange(nn) for _ in range(rng.choice([1, 1, 2, 3]))]
            hist = ptq.run_history(pcfg, cuts, with_queue=False)
            add(pcfg, hist, False, None, {'kind': 'wide ruleset re-weighted in memory', 'cuts': cuts,
                                          'base': [[b['replacements'][0], b['prob']] for b in pcfg.base],
                                          'groups': {t: [g['prob'] for g in gs] for t, gs in pcfg.grammar.items() if gs and t[0] not in 'EW'}})
            n_rew += 1

    # ---- C08 through the real CrackingSession loop, save file and pcfg_guesser.load_save ----
    n_session_hist = 0
    if pid == 'C08':
        from . import session
        pick = [g for gi, g in enumerate(grammars) if gi % (9 if tier == 'quick' else 3) == 0]
        for gi, g in enumerate(pick):
            d = os.path.join(work, 'sg%d' % gi)
            ptq.ruleset_from_int_grammar(g, d, seed=gi)
            nn = ptq.n_nodes(ptq.sizes_of(ptq.load_pcfg(d)))
            for cuts in ([[rng.randrange(nn)], [rng.randrange(nn), rng.randrange(nn)]] if nn > 1 else [[0]]):
                fn = os.path.join(d, 'sess.sav')
                if os.path.exists(fn):
                    os.remove(fn)
                sessions = []
                exhausted = False
                for si in range(len(cuts) + 1):
                    pcfg = ptq.load_pcfg(d, save_file=fn)
                    cut = cuts[si] if si < len(cuts) else None
                    if si == 0:
                        r = session.run_session(pcfg, session.new_save_config(), fn, quit_at_pt=cut)
                        saved = None
                    else:
                        cfg, info = session.load_save(fn)
                        saved = cfg.getfloat('guessing_info', 'max_probability')
                        r = session.run_session(pcfg, cfg, fn, load=True, quit_at_pt=cut)
                    items = r['popped']
                    guessed = items[:-1] if (r['quit'] and items) else items
                    sessions.append({'saved': saved, 'ev': [(it, None) for it in guessed], 'quit': None, 'restored': None})
                    if not r['quit']:
                        exhausted = True
                        break
                if not exhausted:
                    continue
                last = ptq.load_pcfg(d)
                add(last, {'sessions': sessions, 'exhausted': True}, True, None,
                    {'kind': 'int_grammar via CrackingSession.run + .sav file', 'grammar': g, 'cuts': cuts})
                n_session_hist += 1

        # sessions STARTED with --skip_brute / --all_lower: on --load the flags come from the save file (the real
        # pcfg_guesser.load_save), and the reference is the uninterrupted run under the same flags
        for fi in range(4 if tier == 'quick' else 40):
            d = os.path.join(work, 'sf%d' % fi)
            for attempt in range(40):
                # both flags must matter: several case-mask groups and a Markov structure
                desc = ptq.random_float_ruleset(rng, d)
                if any(t[0] == 'C' and len({p for _, p in v}) >= 2 for t, v in desc['terminals'].items()) and \
                        any(sname == 'M' for sname, _ in desc['base']):
                    break
            for flags in (dict(skip_brute=True), dict(skip_case=True)):
                try:
                    ref = ptq.load_pcfg(d, **flags)
                except Exception:
                    continue
                nn = ptq.n_nodes(ptq.sizes_of(ref))
                if nn < 2 or nn > 400:
                    continue
                cuts = [rng.randrange(nn)] + ([rng.randrange(nn)] if rng.random() < 0.5 else [])
                fn = os.path.join(d, 'sess.sav')
                if os.path.exists(fn):
                    os.remove(fn)
                sessions = []
                exhausted = False
                for si in range(len(cuts) + 1):
                    cut = cuts[si] if si < len(cuts) else None
                    if si == 0:
                        pcfg = ptq.load_pcfg(d, save_file=fn, **flags)
                        r = session.run_session(pcfg, session.new_save_config(**flags), fn, quit_at_pt=cut)
                        saved = None
                    else:
                        cfg, info = session.load_save(fn)
                        if cfg is None:
                            break
                        saved = cfg.getfloat('guessing_info', 'max_probability')
                        pcfg = ptq.load_pcfg(d, save_file=fn, skip_brute=info.get('skip_brute', False), skip_case=info.get('skip_case', False))
                        r = session.run_session(pcfg, cfg, fn, load=True, quit_at_pt=cut)
                    items = r['popped']
                    guessed = items[:-1] if (r['quit'] and items) else items
                    sessions.append({'saved': saved, 'ev': [(it, None) for it in guessed], 'quit': None, 'restored': None})
                    if not r['quit']:
                        exhausted = True
                        break
                if not exhausted:
                    continue
                try:
                    add(ref, {'sessions': sessions, 'exhausted': True}, False, None,
                        {'kind': 'float ruleset via CrackingSession.run + .sav file, flags from the save file', 'ruleset': desc, 'flags': flags, 'cuts': cuts})
                    n_session_hist += 1
                except (KeyError, IndexError) as ex:
                    # a pre-terminal that does not exist under the session's flags was emitted after --load
                    tid += 1
                    ptraces.append({'tid': tid, 'mode': mode, 'sizes': [[1]], 'sess': [{'saved': ptq.INF, 'ev': []}], 'exhausted': True,
                                    'ev2': [], 'raised': True})
                    meta[tid] = {'kind': 'float ruleset via CrackingSession.run + .sav file, flags from the save file', 'ruleset': desc,
                                 'flags': flags, 'cuts': cuts, 'error': 'resumed session emitted a pre-terminal unknown under the flags: %r' % (ex,)}

        # anti-vacuity: the session-level histories must really have been interrupted and resumed
        n_multi = sum(1 for t_ in ptraces if len(t_['sess']) >= 2 and meta[t_['tid']].get('kind', '').find('CrackingSession') >= 0)
        if n_session_hist and not n_multi:
            raise core.MachineryError('C08: no session-level history was interrupted (the quit script no longer reaches the loop)')

    # ---- shipped ruleset prefix (order / reported probability only; node space not tabulated) ----
    extra_prefix = 0
    if pid == 'C01':
        default = os.path.join(core.REPO, 'Rules', 'Default')
        if os.path.isdir(default):
            pcfg = ptq.load_pcfg(default, save_file=os.path.join(work, 'default.sav'))
            hist = ptq.run_history(pcfg, [], with_queue=False, max_pops=400 if tier == 'quick' else 5000)
            tid += 1
            try:
                p, _ = ptq.to_traces(tid, pcfg, hist, 'C01', exact=False)
            except (KeyError, IndexError) as ex:
                p = None
                tid -= 1
                core.PENDING_RAISES.append({'error': repr(ex), 'clause': 'C01_stream_is_a_function_of_the_ruleset', 'via': 'shipped ruleset prefix'})
            if p is not None:
                p['sizes'] = [[1]]
                p['mode'] = 'C01_prefix'
                ptraces.append(p)
                meta[tid] = {'kind': 'shipped Rules/Default prefix', 'pops': len(p['sess'][0]['ev'])}
                extra_prefix = len(p['sess'][0]['ev'])

    # ---- two-run determinism (C01) ----
    if det_jobs:
        seqs = second_run([j for _, j in det_jobs])
        for (p, _), s2 in zip(det_jobs, seqs):
            p['ev2'] = s2

    # ---- C08: a session is refused when the ruleset's UUID differs from the saved one (real command line) ----
    uuid_result = None
    if pid == 'C08':
        from . import session, rulesets
        rcopy = core.repo_copy('cli')
        d = os.path.join(rcopy, 'Rules', 'uu')
        ptq.ruleset_from_int_grammar(grammars[len(grammars) // 2], d, seed=1)
        out0, _, _ = session.cli(rcopy, 'pcfg_guesser.py', ['-r', 'uu', '-s', 'u1'], stdin='open')
        full = session.stdout_lines(out0)
        session.cli(rcopy, 'pcfg_guesser.py', ['-r', 'uu', '-s', 'u2', '-n', '1'], stdin='open')
        same, _, _ = session.cli(rcopy, 'pcfg_guesser.py', ['-r', 'uu', '-s', 'u2', '--load'], stdin='open')
        cfgp = os.path.join(d, 'config.ini')
        txt = open(cfgp).read().replace('00000000-0000-0000-0000-000000000001', '99999999-0000-0000-0000-000000000009')
        open(cfgp, 'w').write(txt)
        other, err, _ = session.cli(rcopy, 'pcfg_guesser.py', ['-r', 'uu', '-s', 'u2', '--load'], stdin='open')
        uuid_result = {'same_uuid_resumes': session.stdout_lines(same) == full, 'other_uuid_lines': len(session.stdout_lines(other)),
                       'refusal_message': 'UUID' in err.decode('utf-8', 'replace')}
        # judged by TLC as stream equalities (TrLoader kind "lines"): the refused session writes nothing, the matching one resumes
        enc = lambda ls: [[ord(c) for c in x] for x in ls]
        uv, _ = core.validate_traces('TrLoader.tla', [
            {'tid': 1, 'kind': 'lines', 'lines': enc(session.stdout_lines(other)), 'ref': []},
            {'tid': 2, 'kind': 'lines', 'lines': enc(session.stdout_lines(same)), 'ref': enc(full)}], timeout=120)
        if uv[1][0] != 'ACCEPT':
            verdict.violation(dict(uuid_result, clause='C08_uuid_refusal'), 'a session whose saved UUID differs from the ruleset was not refused: %s' % uuid_result)
        if uv[2][0] != 'ACCEPT':
            verdict.violation(dict(uuid_result, clause='C08_uuid_match_resumes'), 'a session with the matching UUID did not resume: %s' % uuid_result)

    # ---- verdict: P-layer trace validation ----
    verdicts, st = core.validate_traces('TrPTQ.tla', ptraces)
    for t in ptraces:
        v = verdicts[t['tid']]
        if v[0] != 'ACCEPT':
            si, l, clause = v[1], v[2], v[3]
            w = dict(meta[t['tid']], clause=clause, session=si, event=l, trace=t)
            verdict.violation(w, 'clause %s at session %s event %s; %s' % (clause, si, l, core.short(meta[t['tid']], 200)))
    # ---- the binding is not vacuous: corrupted copies of accepted traces must be rejected ----
    def corrupt(t):
        ev = t['sess'][-1]['ev']
        if len(ev) < 2 or not t['exhausted']:
            return None
        if pid == 'C01':
            i = next((k for k in range(len(ev) - 1) if ev[k]['r'] != ev[k + 1]['r']), None)
            if i is None:
                return None
            ev[i], ev[i + 1] = ev[i + 1], ev[i]          # two emissions swapped: order violated
            t['ev2'] = t['sess'][0]['ev']
        else:
            del ev[len(ev) // 2]                          # one emission removed: something is lost
        return t
    accepted = [t for t in ptraces if verdicts[t['tid']][0] == 'ACCEPT' and t.get('mode') != 'C01_prefix']
    selftest = core.binding_selftest('TrPTQ.tla', accepted, corrupt)
    # ---- drift: I-layer conformance (never a verdict) ----
    iverd, ist = core.validate_traces('TrPTQ_I.tla', itraces) if itraces else ({}, {'states': 0, 'transitions': 0})
    drift = [(k, v) for k, v in iverd.items() if v[0] != 'ACCEPT']

    # C02's grid is the grid the rule FILES define: the loader must turn every base-structure line into its variables (a case
    # mask after every alpha variable) - every file of Loader.tla's model space through the real default load
    grid_of_files = None
    if pid == 'C02':
        from . import check_loader
        grid_of_files = check_loader.insertion_stage(verdict)
    verdict.matcher('C08-F4-restore-strict-parent',
                    lambda w: w.get('clause') == 'C08_repeat_only_ties')
    rc, n_viol, n_known = verdict.finish()

    distinct = len({json.dumps(t['sess'], sort_keys=True) for t in ptraces if sum(len(s['ev']) for s in t['sess']) > 1})
    sample = ptraces[min(len(ptraces) - 1, 7)]
    cov = {
        'states': mc['states'], 'transitions': mc['transitions'],
        'traces_validated_against_impl': len(ptraces),
        'samples': [{'meta': meta[sample['tid']], 'trace': {k: sample[k] for k in ('sizes', 'sess', 'exhausted')}}],
        'model_checking': mc,
        'evaluations': len(ptraces), 'distinct_nontrivial': distinct,
        'rule': 'one trace = one recorded history (sessions x pops) of the real PcfgQueue on one ruleset; '
                'non-trivial = more than one emission; distinct by emitted node/rank sequence',
        'int_grammars_from_spec': n_int, 'float_rulesets': n_float,
        'shipped_ruleset_prefix_pops': extra_prefix,
        'determinism_pairs': len(det_jobs), 'wide_ruleset_reweightings': n_rew, 'session_level_histories': n_session_hist, 'session_level_histories_with_resume': (n_multi if pid == 'C08' else 0), 'uuid_refusal': uuid_result,
        'trace_validation': st,
        'impl_conformance': {'traces': len(itraces), 'states': ist.get('states', 0),
                             'result': 'drift' if drift else 'conforms', 'drift_examples': drift[:3]},
        'exhaustive': False, 'binding_selftest': selftest,
        'known_findings_reproduced': n_known, 'grid_of_the_files': grid_of_files,
    }
    core.write_evidence(pid, tier, seed, 'model_checking', cov, time.time() - t0, violations=n_viol,
                        assumptions=['TLC', 'rank abstraction of floats (dense ranks of the reported probabilities)',
                                     'node universe taken from the loaded grammar (loader is judged by C07/C14)',
                                     'reported-probability comparison done in Python (exact for dyadic rulesets, 1e-12 relative otherwise)'])
    return rc
