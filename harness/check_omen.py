"""C10 (generator enumerates each level exactly), C11 (trainer / scorer / guesser agree on levels),
C18 (saved keyspace = what the generator produces).  Model: spec/Omen.tla, MC_Omen.tla; verdict: TrOmen.tla."""
import contextlib
import io
import itertools
import json
import os
import random
import time

from . import core, omen, rulesets, train

TRAIN_LISTS = {
    'short_ab': ['ab'] * 6 + ['abab', 'abba', 'ba', 'bab', 'aab', 'abb', 'abab', 'ab'],
    'single_length': ['abc', 'abd', 'bcd', 'abc', 'cab', 'dab', 'abc', 'bca'],
    'ngram_len_dominated': ['abcd'] * 5 + ['abce', 'bcde', 'abcde', 'abcdef', 'eabcd', 'abcd'],
    'mixed': ['password', 'passw0rd', 'pass', 'word', 'sword', 'swords', 'pa55', 'drow', 'wordpass', 'pass', 'pass', 'words'],
    'digits': ['123456', '12345', '123', '1234', '654321', '123456', '111111', '123123', '12', '21', '123456'],
    # initial n-grams of frequency ~0.1% get IP levels between the lowest and 10
    'rare_starts': ['abcabc'] * 560 + ['abcab'] * 300 + ['bcabc'] * 130 + ['dedede', 'eded', 'ddee', 'abcde', 'ebcab', 'cdcd', 'dcdc', 'eeee', 'edcba', 'dede'],
    # pass phrases: the space (and NBSP / ideographic space) is an ordinary alphabet character; n-grams END in it
    'spaces': ['ab ab', 'ab a', 'a b', 'ab ab', 'ba b', 'ab ', 'ab ab', 'b ab', 'ab\u00a0ab', 'ab\u3000b', 'ab ab a', 'a ba'],
    'unicode': ['пароль', 'пар', 'роль', 'парол', 'пароль', 'ольпар', 'éte', 'été', 'étéé', 'tété', 'été'],
}


def mc_stage(tier, pid='C10'):
    mod = os.path.join(core.SPEC, 'MC_Omen.tla')
    cfg = os.path.join(core.SPEC, 'MC_Omen_%s.cfg' % tier)
    r = core.tlc_must_pass(mod, cfg, 'Omen %s' % tier, timeout=3000)
    out = {'cfg': os.path.basename(cfg), 'states': r.distinct, 'transitions': r.generated, 'wall_s': round(r.wall, 1)}
    if pid in ('C10', 'C15'):
        # the implementation-shaped generator model (cursors, parse tree backtracking, shared memo) against LevelSet
        cfg2 = os.path.join(core.SPEC, 'MC_OmenEnum_%s.cfg' % tier)
        r2 = core.tlc_must_pass(os.path.join(core.SPEC, 'MC_OmenEnum.tla'), cfg2, 'OmenEnum %s' % tier, timeout=6000)
        out['generator_model'] = {'cfg': os.path.basename(cfg2), 'states': r2.distinct, 'transitions': r2.generated, 'wall_s': round(r2.wall, 1)}
        out['states'] += r2.distinct
        out['transitions'] += r2.generated
        if pid == 'C10':
            # liveness: under weak fairness of the next_guess() step every level ends ("and then reports exhaustion")
            r3 = core.tlc_must_pass(os.path.join(core.SPEC, 'MC_OmenEnum.tla'), os.path.join(core.SPEC, 'MC_OmenEnum_live.cfg'),
                                    'OmenEnum liveness', timeout=3000)
            out['generator_liveness'] = {'cfg': 'MC_OmenEnum_live.cfg', 'property': 'ReportsExhaustion', 'states': r3.distinct, 'wall_s': round(r3.wall, 1)}
    return out, cfg


def export_models(mc_cfg):
    d = core.scratch('export')
    cfg = os.path.join(d, 'export.cfg')
    keep = [l for l in open(mc_cfg) if not l.strip().startswith(('INVARIANT', 'PROPERTY', 'SPECIFICATION', 'CHECK_DEADLOCK'))]
    with open(cfg, 'w') as f:
        f.write('SPECIFICATION ESpec\n' + ''.join(keep))
    out = os.path.join(d, 'models.json')
    r = core.tlc(os.path.join(core.SPEC, 'Export_Omen.tla'), cfg, workers=1, timeout=600, env={'OUT_FILE': out}, deadlock=False)
    if not os.path.exists(out):
        raise core.MachineryError('model export failed:\n' + r.out[-2000:])
    with open(out) as f:
        ms = json.load(f)
    ms.sort(key=lambda m: json.dumps(m, sort_keys=True))
    return ms


def level_traces(tid0, d, levels, histories, rng, meta, desc, cap=4000):
    """drain the real generator for each level under each cache history"""
    model, ids = omen.neutral_model(d)
    out = []
    tid = tid0
    try:
        g = omen.load_real(d)
    except core.MachineryError as ex:
        # the guesser refuses a model the harness wrote according to the format: nothing of any level is generated
        for lv in levels:
            tid += 1
            out.append({'tid': tid, 'kind': 'raises', 'm': model, 'level': lv})
            meta[tid] = dict(desc, level=lv, history='load', error='the OMEN loader refused the model: ' + str(ex)[-160:])
        return out, tid
    for hist in histories:
        if hist == 'fresh':
            order, opt = list(levels), None
        elif hist == 'shared_ascending':
            order, opt = list(levels), omen.new_optimizer()
        elif hist == 'shared_shuffled':
            order, opt = list(levels), omen.new_optimizer()
            rng.shuffle(order)
        else:  # shared, generated twice
            order, opt = list(levels) + list(reversed(levels)), omen.new_optimizer()
        for lv in order:
            o = opt if opt is not None else omen.new_optimizer()
            strings, done, err = omen.drain(g, lv, o, cap=cap)
            tid += 1
            if err == 'cap':
                tid -= 1
                continue
            if err is not None:
                out.append({'tid': tid, 'kind': 'raises', 'm': model, 'level': lv})
                meta[tid] = dict(desc, level=lv, history=hist, error=err)
            else:
                out.append({'tid': tid, 'kind': 'level', 'm': model, 'level': lv, 'done': bool(done),
                            'ev': [omen.ids_of(s, ids) for s in strings]})
                meta[tid] = dict(desc, level=lv, history=hist, n=len(strings))
    return out, tid


def fake_trainer(m):
    """an AlphabetLookup-shaped object carrying the model's tables (spec -> code for calc_omen_keyspace)"""
    class T:
        pass
    t = T()
    t.ngram = m['n']
    t.ln_lookup = [(lv, 1) for lv in m['ln']]
    txt = lambda k: ''.join(omen.LETTERS[c - 1] for c in k)
    t.grammar = {}
    for k, lv in m['ip']:
        t.grammar[txt(k)] = {'ip_level': lv, 'ep_level': 0, 'next_letter': {}}
    for k, lv in m['cp']:
        # the trainer registers every (n-1)-gram it walks over: the one before a transition and the one
        # after it (possibly with no transitions of its own); never-initial ones carry IP level 10
        for key in (txt(k[:-1]), txt(k[1:])):
            if key not in t.grammar:
                t.grammar[key] = {'ip_level': 10, 'ep_level': 0, 'next_letter': {}}
        t.grammar[txt(k[:-1])]['next_letter'][txt(k[-1:])] = (lv, 1)
    return t


def model_of_trainer(ot):
    """export the OMEN tables from the trainer's memory; character ids by alphabet position"""
    ids = {}
    for a in ot.alphabet:
        ids.setdefault(a, len(ids) + 1)
    m = {'n': ot.ngram, 'ln': [lv for lv, _ in ot.ln_lookup], 'ip': [], 'cp': []}
    for k, data in ot.grammar.items():
        m['ip'].append([omen.ids_of(k, ids), data['ip_level']])
        for c, lv in data['next_letter'].items():
            m['cp'].append([omen.ids_of(k + c, ids), lv[0]])
    return m, ids


N_PREFIXED = [0]
n_tool_differs = [0]


class _Refuses:
    """stands for a scorer that could not load the ruleset"""
    def parse(self, s):
        return -2


REFUSES = _Refuses()
n_model_drained = [0]
n_reordered = [0]
n_counted_only = [0]
n_counted_by_generator = [0]


def train_maybe_prefixed(i, pws, ngram, asz, cov):
    """every second training list is handed to the trainer in `uniq -c` form (--prefixcount): every pass over the file must
    then expand '  3 password' into three passwords, the third (level counting) pass included"""
    if i % 2 == 1 and not any(c.isspace() for p in pws for c in p) and all(pws):
        cnt = {}
        for p in pws:
            cnt[p] = cnt.get(p, 0) + 1
        raw = ''.join('%7d %s\n' % (n, p) for p, n in cnt.items()).encode('utf-8')
        N_PREFIXED[0] += 1
        return train.train(raw=raw, prefixcount=True, ngram=ngram, alphabet_size=asz, coverage=cov)
    return train.train(pws, ngram=ngram, alphabet_size=asz, coverage=cov)


def trainings(tier, rng):
    combos = []
    for name, pws in TRAIN_LISTS.items():
        for ngram in ((2, 3) if tier == 'quick' else (2, 3, 4, 5)):
            combos.append((name, pws, ngram, rng.choice([10, 100]), rng.choice([0.25, 0.6])))
    # skewed Markov sources: one very common and one rare continuation after the same context, so that the
    # transition levels available in a context are NOT contiguous (e.g. {0, 2}) and backtracking must jump the gap
    for k in range(3 if tier == 'quick' else 40):
        alpha = rng.choice(['abc', 'abc', 'abcd', 'ab1'])
        w = {a: sorted((rng.choice([0.9, 0.08, 0.02, 0.3]) for _ in alpha), reverse=bool(rng.getrandbits(1))) for a in alpha}
        pws = []
        for _ in range(rng.randint(60, 120)):
            cur = rng.choice(alpha[:2])
            out = cur
            for _ in range(rng.randint(1, 4)):
                cur = rng.choices(alpha, weights=w[cur])[0]
                out += cur
            pws.append(out)
        combos.append(('skewed%d' % k, pws, rng.choice([2, 2, 3]), rng.choice([10, 100]), 0.6))
    from . import lists as _lists
    for sname, (pws, sopt) in sorted(_lists.special_lists().items()):
        combos.append(('special:' + sname, list(pws), rng.choice([2, 3]), 100, sopt.get('coverage', 0.6)))
    if tier == 'thorough':
        for k in range(30):
            alpha = rng.choice(['ab', 'abc', 'abcd1', 'xyz12'])
            pws = [''.join(rng.choice(alpha) for _ in range(rng.randint(1, 6))) for _ in range(rng.randint(5, 40))]
            pws += [pws[0]] * 3
            combos.append(('random%d' % k, pws, rng.choice([2, 3, 4]), rng.choice([3, 10, 100]), 0.6))
    return combos


def main(pid, tier, seed):
    t0 = time.time()
    rng = random.Random(seed)
    verdict = core.Verdict(pid)
    mc, mc_cfg = mc_stage(tier, pid)
    work = core.scratch('omen')
    step_traces = []
    traces, meta = [], {}
    tid = 0
    maxlv = 4

    models = export_models(mc_cfg)
    n_models_total = len(models)
    if pid == 'C10':
        sample = rng.sample(models, min(len(models), 260 if tier == 'quick' else 1500))
        for k, m in enumerate(sample):
            d = os.path.join(work, 'm%d' % k)
            # the models that are not stepped call by call below are written with their lines sorted by level / reversed
            n_step = 60 if tier == 'quick' else 600
            order = None if k < n_step else [None, 'by_level', 'reversed'][k % 3]
            n_reordered[0] += order is not None
            omen.write_model(d, m, order=order)
            hs = ['fresh', 'shared_shuffled'] if tier == 'quick' else ['fresh', 'shared_shuffled', 'twice']
            tr, tid = level_traces(tid, d, list(range(0, maxlv + 2)), hs, rng, meta, {'kind': 'model-checked model', 'model': m})
            traces += tr
        for k, m in enumerate(sample[:60 if tier == 'quick' else 600]):
            lv = list(range(0, maxlv + 2))
            rng.shuffle(lv)
            stt = omen.step_trace(len(step_traces) + 1, os.path.join(work, 'm%d' % k), lv[:4])
            if stt:
                step_traces.append(stt)
        nrand = 120 if tier == 'quick' else 600
        for k in range(nrand):
            b = [None, None, None, 'ln10', 'ip10', 'ln0'][k % 6]
            m = omen.random_model(rng, boundary=b)
            d = os.path.join(work, 'r%d' % k)
            order = [None, 'by_level', 'reversed'][k % 3]
            n_reordered[0] += order is not None
            # every fourth model without a newline after the last line of its files (boundary 'ln10': the last line is '10')
            omen.write_model(d, m, order=order, final_newline=(k % 4 != 3))
            levels = list(range(0, omen.max_useful_level(m) + 1))
            if b in ('ln10', 'ip10'):
                levels = [10, 11, 12, 20]
            tr, tid = level_traces(tid, d, levels, ['shared_shuffled'], rng, meta,
                                   {'kind': 'random model', 'boundary': b, 'model': m}, cap=3000)
            traces += tr
            if k % 3 == 0 and b not in ('ln10', 'ip10'):
                lv = list(levels)
                rng.shuffle(lv)
                stt = omen.step_trace(len(step_traces) + 1, d, lv[:4])
                if stt:
                    step_traces.append(stt)
        for name, pws, ngram, asz, cov in trainings(tier, rng)[:6 if tier == 'quick' else 40]:
            res = train.train(pws, ngram=ngram, alphabet_size=asz, coverage=cov)
            if not res['ok']:
                continue
            tr, tid = level_traces(tid, os.path.join(res['dir'], 'Omen'), list(range(0, 5)), ['shared_ascending'], rng, meta,
                                   {'kind': 'trainer-produced model', 'list': name, 'ngram': ngram}, cap=2500)
            traces += tr

    elif pid == 'C18':
        from lib_trainer.omen.evaluate_password import calc_omen_keyspace
        sample = models if tier == 'thorough' else rng.sample(models, min(len(models), 600))
        for m in sample:
            ft = fake_trainer(m)
            with contextlib.redirect_stdout(io.StringIO()):
                ks = calc_omen_keyspace(ft, max_level=maxlv)
            # the model the trainer object stands for (transition-only keys carry IP level 10)
            ipk = {json.dumps(k) for k, _ in m['ip']}
            extra = []
            for k, _ in m['cp']:
                for kk in (k[:-1], k[1:]):
                    if json.dumps(kk) not in ipk:
                        ipk.add(json.dumps(kk))
                        extra.append([kk, 10])
            mm = dict(m, ip=m['ip'] + extra)
            # ... and what the real generator emits for the same model written as rule files (one model in three)
            gen_of = {}
            if tid % 3 == 0:
                dm = os.path.join(work, 'ks%d' % tid)
                omen.write_model(dm, mm)
                try:
                    gm = omen.load_real(dm)
                except core.MachineryError:
                    gm = None
                optm = omen.new_optimizer()
                for lv in range(1, maxlv + 1):
                    if gm is None:
                        gen_of[lv] = -2
                        continue
                    ss_, done_, err_ = omen.drain(gm, lv, optm, cap=20000)
                    gen_of[lv] = len(set(ss_)) if (done_ and err_ is None) else (-1 if err_ == 'cap' else -2)
                n_model_drained[0] += 1
            tid += 1
            traces.append({'tid': tid, 'kind': 'keyspace', 'm': mm,
                           'rows': [[lv, int(ks[lv]), gen_of.get(lv, -1), 1] for lv in range(1, maxlv + 1)]})
            meta[tid] = {'kind': 'calc_omen_keyspace on a model-checked model', 'model': m, 'generator_counts': gen_of}
        for ti_, (name, pws, ngram, asz, cov) in enumerate(trainings(tier, rng)):
            res = train_maybe_prefixed(ti_, pws, ngram, asz, cov)
            if not res['ok']:
                continue
            od = os.path.join(res['dir'], 'Omen')
            model, ids = omen.neutral_model(od)
            try:
                g = omen.load_real(od)
            except core.MachineryError:
                g = None        # the guesser cannot load what the trainer wrote: every listed level then produces nothing
            ksp = {int(a): int(b) for a, b in (l.split('\t') for l in rulesets.neutral_read(os.path.join(od, 'omen_keyspace.txt')))}
            prob = {int(a): float(b) for a, b in (l.split('\t') for l in rulesets.neutral_read(os.path.join(od, 'pcfg_omen_prob.txt')))}
            cnt = {int(a): int(b) for a, b in (l.split('\t') for l in rulesets.neutral_read(os.path.join(od, 'omen_pws_per_level.txt')))}
            n_valid = res['captured']['num_valid_passwords']
            rows = []
            opt = omen.new_optimizer()
            for lv in sorted(ksp):
                if ksp[lv] >= 10 ** 9 or lv > 13:
                    continue            # (TLC's 32-bit integers)
                if g is None:
                    strings, done, err = [], False, 'load_rules failed'
                elif ksp[lv] > (1500 if tier == 'quick' else 20000) or lv > 13:
                    strings, done, err = [], False, 'cap'     # counted by the specification only (Omen.tla: KeyspaceDP), not drained
                    n_counted_only[0] += 1
                else:
                    strings, done, err = omen.drain(g, lv, opt, cap=60000)
                # -1 = not counted (cap reached); -2 = the generator raised / the ruleset did not load (never equals a keyspace)
                gen = len(set(strings)) if (done and err is None) else (-1 if err == 'cap' else -2)
                pf = 1
                if ksp[lv] > 0:
                    # "the fraction of training passwords at that level": counted here as the training passwords the real generator
                    # emits at this level (when the level was drained completely), not as what the trainer wrote next to it
                    at_level = cnt.get(lv, 0)
                    if gen >= 0:
                        sset = set(strings)
                        at_level = sum(1 for p_ in pws if p_ in sset)
                        n_counted_by_generator[0] += 1
                    want = (at_level / n_valid) / ksp[lv]
                    got = prob.get(lv)
                    pf = 1 if (got is not None and abs(got - want) <= 1e-12 * max(abs(want), 1e-300)) or (got is None and want == 0 and False) else 0
                    if got is None:
                        pf = 0
                rows.append([lv, ksp[lv], gen, pf])
            tid += 1
            traces.append({'tid': tid, 'kind': 'keyspace', 'm': model, 'rows': rows})
            meta[tid] = {'kind': 'trainer-produced ruleset', 'list': name, 'ngram': ngram, 'alphabet_size': asz,
                         'rows': rows, 'passwords': pws[:12]}

    else:  # C11
        from lib_trainer.omen.evaluate_password import find_omen_level
        from lib_scorer.omen_scorer import OmenScorer
        # ---- spec -> code: the models MC_Omen's ThreeAgree quantifies over (those a trainer can write: every context of a
        # ---- transition is listed in IP.level), given to the three real implementations
        from lib_trainer.omen.alphabet_lookup import AlphabetLookup
        shaped = [m for m in models if all(any(k == c[0][:-1] for k, _ in m['ip']) for c in m['cp'])]
        for k, m in enumerate(rng.sample(shaped, min(len(shaped), 150 if tier == 'quick' else 1200))):
            base = os.path.join(work, 'a%d' % k)
            od = os.path.join(base, 'Omen')
            os.makedirs(od)
            alphabet = omen.write_model(od, m)
            na = len(alphabet)
            txt = lambda key: ''.join(alphabet[c - 1] for c in key)
            ot = AlphabetLookup(alphabet, m['n'], 1, len(m['ln']))
            ot.ln_lookup = [(lv, 0) for lv in m['ln']]
            for key, lv in m['ip']:
                ot.grammar[txt(key)] = {'ip_level': lv, 'ep_level': 0, 'ip_count': 0, 'ep_count': 0, 'cp_count': 0, 'next_letter': {}}
            for key, lv in m['cp']:
                ot.grammar[txt(key[:-1])]['next_letter'][alphabet[key[-1] - 1]] = (lv, 1)
            with contextlib.redirect_stderr(io.StringIO()), contextlib.redirect_stdout(io.StringIO()):
                try:
                    sc = OmenScorer(base, 'utf-8', 18)
                except Exception:
                    sc = REFUSES          # the scorer cannot load the ruleset: it rates nothing (-2 never equals a level)
            g = omen.load_real(od)
            model, ids = omen.neutral_model(od)
            where = {}
            lmax = 6
            opt = omen.new_optimizer()
            for lv in range(0, lmax + 1):
                strings, done, err = omen.drain(g, lv, opt, cap=30000)
                if not done or err:
                    lmax = lv - 1
                    break
                for s_ in strings:
                    where.setdefault(s_, lv)
            cl = []
            for L in range(0, len(m['ln']) + 2):
                for tup in itertools.product(alphabet + ['Z'], repeat=L):
                    s_ = ''.join(tup)
                    cl.append([omen.ids_of(s_, ids), find_omen_level(ot, s_), sc.parse(s_), where.get(s_, -3)])
            tid += 1
            traces.append({'tid': tid, 'kind': 'agree', 'm': model, 'cands': cl, 'lmax': lmax, 'train': [], 'pwcounts': []})
            meta[tid] = {'kind': 'model-checked model', 'model': m, 'candidates': len(cl), 'generated_strings_seen': len(where)}
        for ti_, (name, pws, ngram, asz, cov) in enumerate(trainings(tier, rng)):
            res = train_maybe_prefixed(ti_, pws, ngram, asz, cov)
            if not res['ok']:
                continue
            ot = res['captured']['omen_trainer']
            model, ids = model_of_trainer(ot)
            od = os.path.join(res['dir'], 'Omen')
            with contextlib.redirect_stderr(io.StringIO()), contextlib.redirect_stdout(io.StringIO()):
                try:
                    sc = OmenScorer(res['dir'], 'utf-8', 18)
                except Exception:
                    sc = REFUSES
            g = omen.load_real(od)
            lmax = 12           # (levels >= 10 are where lengths and initial n-grams that training never saw live)
            where = {}
            complete = True
            opt = omen.new_optimizer()
            for lv in range(0, lmax + 1):
                strings, done, err = omen.drain(g, lv, opt, cap=30000)
                if not done or err:
                    complete = False
                    lmax = lv - 1
                    break
                for s in strings:
                    where.setdefault(s, lv)
            alpha = list(ot.alphabet)[:3] or ['a']
            cands = set(pws)
            for L in range(max(1, ngram - 1), ngram + 2):
                for tup in itertools.product(alpha, repeat=L):
                    cands.add(''.join(tup))
                    if len(cands) > 400:
                        break
            cands.update(list(where)[:150])
            cands.update(['Z' + pws[0], pws[0] + '~', pws[0][:ngram - 1], pws[0][:ngram], 'a' * 21, 'a' * 22, ''])
            # every length from 1 to 9 (lengths no training password has carry the highest length level), spelled with the
            # n-grams of training passwords so that only the length decides
            for L in range(1, 10):
                for src in pws[:4]:
                    if src:
                        cands.add((src * 10)[:L])
            cands.update(['bob@aol.com', 'www.abc.com', 'abc.com', pws[0] + '@aol.com', 'www.' + pws[0] + '.com'])
            from . import check_score as _cs
            tool = None
            try:
                tool = _cs.make_scorer(res['dir'])
            except Exception:
                tool = None
            cl = []
            for s in sorted(cands):
                tr = find_omen_level(ot, s)
                scv = sc.parse(s)
                if tool is not None:
                    try:
                        tv = tool.parse(s)[3]        # the OMEN column of password_scorer's output
                    except Exception:
                        tv = -2
                    if tv != scv:
                        scv = tv
                        n_tool_differs[0] += 1
                gu = where.get(s, -3)
                cl.append([omen.ids_of(s, ids), tr, scv, gu])
            cnts = {int(a): int(b) for a, b in (l.split('\t') for l in rulesets.neutral_read(os.path.join(od, 'omen_pws_per_level.txt')))}
            # the third pass sees every accepted password; the harness passes them as the trainer yielded them
            seen = [omen.ids_of(p, ids) for p in pws]
            tid += 1
            traces.append({'tid': tid, 'kind': 'agree', 'm': model, 'cands': cl, 'lmax': lmax,
                           'train': seen, 'pwcounts': [[k, v] for k, v in sorted(cnts.items())]})
            meta[tid] = {'kind': 'trainer-produced ruleset', 'list': name, 'ngram': ngram, 'alphabet_size': asz,
                         'candidates': len(cl), 'generated_strings_seen': len(where)}
            # the tables behind the levels: the trainer's n-gram counts are the tallies of the passwords it saw
            ipc, epc, cpc = [], [], []
            for k, data in ot.grammar.items():
                ipc.append([omen.ids_of(k, ids), data['ip_count']])
                epc.append([omen.ids_of(k, ids), data['ep_count']])
                for c, lv in data['next_letter'].items():
                    cpc.append([omen.ids_of(k + c, ids), lv[1]])
            tid += 1
            traces.append({'tid': tid, 'kind': 'tables', 'm': model, 'n': ot.ngram, 'maxlen': ot.max_length,
                           'pws': [omen.ids_of(p, ids) for p in pws], 'alpha': [ids[a] for a in ot.alphabet],
                           'ipc': ipc, 'epc': epc, 'cpc': cpc, 'lnc': [c for _, c in ot.ln_lookup], 'asz': asz,
                           'cptot': [[omen.ids_of(k, ids), data['cp_count']] for k, data in ot.grammar.items()]})
            meta[tid] = {'kind': 'trainer n-gram tables', 'list': name, 'ngram': ngram, 'alphabet_size': asz, 'passwords': len(pws)}

    smoothing = None
    if pid == 'C11':
        # ---- the smoothing formula (Smoothing.tla): model-checked (one admissible level everywhere, monotone in the count), and the
        # ---- real _calc_level on every (count, total, adjust) of that space (spec -> code, I-layer: drift only)
        from lib_trainer.omen.smoothing import _calc_level
        mt = 120 if tier == 'quick' else 400
        cfgp = os.path.join(core.scratch('smcfg'), 'MC_Smoothing.cfg')
        with open(os.path.join(core.SPEC, 'MC_Smoothing.cfg')) as f:
            txt = f.read().replace('MaxTotal = 400', 'MaxTotal = %d' % mt)
        with open(cfgp, 'w') as f:
            f.write(txt)
        r = core.tlc_must_pass(os.path.join(core.SPEC, 'MC_Smoothing.tla'), cfgp, 'Smoothing', timeout=1800)
        n_rows = 0
        for t_ in range(1, mt + 1):
            rows = [[c, t_, a, _calc_level(c, t_, a)] for a in (1, 2, 250) for c in range(0, t_ + 1)]
            n_rows += len(rows)
            tid += 1
            traces.append({'tid': tid, 'kind': 'smooth', 'm': {'n': 2, 'ln': [], 'ip': [], 'cp': []}, 'rows': rows})
            meta[tid] = {'kind': '_calc_level on the model-checked space', 'list': 'total=%d' % t_}
        smoothing = {'model_checking': {'cfg': 'MC_Smoothing.cfg (MaxTotal = %d)' % mt, 'states': r.distinct, 'wall_s': round(r.wall, 1),
                                        'invariants': ['Determined', 'Monotone', 'ZeroIsMax', 'CertainIsZero']},
                     'real_calc_level_calls_validated': n_rows}
    verdicts, st = core.validate_traces('TrOmen.tla', traces, chunk=250, timeout=900)
    idrift = []
    for t in traces:
        v = verdicts[t['tid']]
        if v[0] != 'ACCEPT':
            m = meta[t['tid']]
            failing = list(v[1]) if isinstance(v[1], (tuple, list)) else [v[1]]
            idrift += [{'clauses': [c for c in failing if c.startswith('I_')], 'list': m.get('list')}] if any(c.startswith('I_') for c in failing) else []
            failing = [c for c in failing if not c.startswith('I_')]       # I_ clauses: conformance with the I-layer, never a verdict
            if not failing:
                continue
            verdict.violation(dict(m, clause='+'.join(failing), failing=failing),
                              'clauses %s; %s' % (failing, core.short({k: m[k] for k in m if k not in ('model',)}, 300)))
    verdict.matcher('C10-F8-all-level-10', lambda w: w.get('boundary') in ('ln10', 'ip10') and w.get('failing') == ['C10_generator_raised'])
    verdict.matcher('C18-F7-keyspace-undercount', lambda w: w.get('failing') and set(w['failing']) <= {'C18_keyspace_is_level_size', 'C18_generator_emits_that_many', 'C18_saved_probability'} and False)
    def corrupt(t):
        if t['kind'] == 'level' and len(t['ev']) >= 2:
            t['ev'] = t['ev'][:-1]                   # one string of the level missing
            return t
        if t['kind'] == 'keyspace' and t['rows']:
            t['rows'][0][1] += 1                     # saved keyspace off by one
            return t
        if t['kind'] == 'agree' and t['cands']:
            k = next((i for i, c in enumerate(t['cands']) if c[2] >= 0), None)
            if k is None:
                return None
            t['cands'][k][2] += 1                    # scorer level off by one
            return t
        return None
    accepted = [t for t in traces if verdicts[t['tid']][0] == 'ACCEPT']
    selftest = core.binding_selftest('TrOmen.tla', accepted, corrupt)
    # ---- I-layer conformance (drift only): every next_guess() of the real generator against OmenEnum.tla ----
    conf = None
    if not step_traces and omen.UNOBSERVABLE[0]:
        conf = {'step_traces': 0, 'internal_state_not_observable': omen.UNOBSERVABLE[0], 'result': 'not observable'}
    if step_traces:
        sv, sst = core.validate_traces('TrOmenEnum.tla', step_traces, chunk=12, timeout=900)
        bad = [(t['tid'], sv[t['tid']]) for t in step_traces if sv[t['tid']][0] != 'ACCEPT']
        conf = {'step_traces': len(step_traces), 'next_guess_calls': sum(len(r['steps']) for t in step_traces for r in t['rounds']),
                'compared': 'guess, parse tree, length / initial n-gram cursors after every call; the whole shared memo after every level',
                'internal_state_not_observable': omen.UNOBSERVABLE[0],
                'result': 'drift' if bad else 'conforms', 'drift_examples': [list(b[1]) for b in bad[:3]], 'tlc': sst}
    rc, n_viol, n_known = verdict.finish()
    nontriv = [t for t in traces if (t['kind'] == 'level' and len(t['ev']) > 1) or t['kind'] in ('agree', 'keyspace')]
    distinct = len({json.dumps({k: v for k, v in t.items() if k != 'tid'}, sort_keys=True) for t in nontriv})
    s = nontriv[min(5, len(nontriv) - 1)] if nontriv else traces[0]
    cov = {'smoothing': smoothing, 'scorer_tool_levels_differing_from_OmenScorer': n_tool_differs[0], 'model_space_models_also_drained_from_the_real_generator': n_model_drained[0], 'models_written_with_lines_sorted_by_level_or_reversed': n_reordered[0], 'trainings_fed_in_prefixcount_form': N_PREFIXED[0], 'levels_too_large_to_drain_whose_keyspace_the_specification_still_counted': n_counted_only[0], 'levels_whose_training_passwords_were_counted_in_the_generator_output': n_counted_by_generator[0], 'states': mc['states'], 'transitions': mc['transitions'],
           'traces_validated_against_impl': len(traces),
           'samples': [{'meta': {k: v for k, v in meta[s['tid']].items() if k != 'model'}, 'trace': core.short(s, 700)}],
           'model_checking': mc, 'evaluations': len(traces), 'distinct_nontrivial': distinct,
           'rule': 'C10: one trace = one level drained from the real MarkovCracker under one cache history (non-trivial: > 1 string); '
                   'C18: one trace = keyspace rows of one model / trained ruleset; C11: one trace = one trained ruleset with all candidate strings',
           'models_in_checked_space': n_models_total,
           'trace_validation': st, 'exhaustive': False, 'known_findings_reproduced': n_known,
           'impl_conformance': conf, 'alphabet_and_other_I_clauses': {'result': 'drift' if idrift else 'conforms', 'examples': idrift[:3]},
           'binding_selftest': selftest,
           'violation_histogram': verdict.histogram()}
    core.write_evidence(pid, tier, seed, 'model_checking', cov, time.time() - t0, violations=n_viol,
                        assumptions=['TLC', 'the smoothing logarithm that assigns levels is not modelled: level tables are data',
                                     'model read from the rule files by the harness neutral reader (C10, C18) or exported from trainer memory (C11)'])
    return rc
