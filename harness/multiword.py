"""Multi-word detector stage of C05.  Model: spec/MultiWord.tla (train as one action per character, parse /
_identify_multi as functions); verdict: spec/TrMultiWord.tla.

spec -> code: every count table x query string of the parse model check (Export_MultiWord) is loaded into a real
MultiWordDetector(Thr, MinLen, MaxLen) by training and asked through the real parse().
code -> spec: random histories with the default parameters; the model's train() is run on the same history inside TLC
and its table compared with the real trie, every real parse() with the model's."""
import json
import os
import random

from . import core

EXPORT = {'quick': dict(Thr=2, MinLen=2, MaxLen=7, MaxQ=6, WordLens='{2, 3}', MaxBase=3),
          'thorough': dict(Thr=2, MinLen=2, MaxLen=7, MaxQ=6, WordLens='{2, 3}', MaxBase=12)}


def mc_stage(tier):
    mod = os.path.join(core.SPEC, 'MC_MultiWord.tla')
    out = {}
    for part in ('train', 'parse'):
        cfg = os.path.join(core.SPEC, 'MC_MultiWord_%s%s.cfg' % (part, '' if tier == 'thorough' else '_quick'))
        r = core.tlc_must_pass(mod, cfg, 'MultiWord ' + part, timeout=3000)
        out[part] = {'cfg': os.path.basename(cfg), 'states': r.distinct, 'transitions': r.generated, 'wall_s': round(r.wall, 1)}
    return out


def export_space(tier):
    d = core.scratch('mwexp')
    cfg = os.path.join(d, 'e.cfg')
    with open(cfg, 'w') as f:
        f.write('SPECIFICATION ESpec\nCONSTANTS\n  Thr = %(Thr)d\n  MinLen = %(MinLen)d\n  MaxLen = %(MaxLen)d\n'
                '  Letters = {"a", "b"}\n  MaxPwLen = 0\n  MaxHist = 1\n  MaxQ = %(MaxQ)d\n  WordLens = %(WordLens)s\n  MaxBase = %(MaxBase)d\n'
                '  Hists <- NoHists\n  CntSpace <- MCCntOK\n  Queries <- MCQueries\n' % EXPORT[tier])
    out = os.path.join(d, 'mw.json')
    r = core.tlc(os.path.join(core.SPEC, 'Export_MultiWord.tla'), cfg, workers=1, timeout=600, env={'OUT_FILE': out}, deadlock=False)
    if not os.path.exists(out):
        raise core.MachineryError('MultiWord export failed:\n' + r.out[-2000:])
    with open(out) as f:
        return json.load(f)


def dump_trie(mw):
    out = []

    def walk(node, path):
        for k, v in node.items():
            if k == 'count':
                out.append((path, v))
            else:
                walk(v, path + k)
    walk(mw.lookup, '')
    return out


def trace_cfg(thr, minlen, maxlen, letters, quoted):
    d = core.scratch('mwcfg')
    cfg = os.path.join(d, 'TrMultiWord.cfg')
    ls = ', '.join(('"%s"' % x) if quoted else str(x) for x in sorted(letters))
    with open(cfg, 'w') as f:
        f.write('SPECIFICATION TSpec\nCONSTANTS\n  Thr = %d\n  MinLen = %d\n  MaxLen = %d\n  Letters = {%s}\n'
                '  Hists = {}\n  CntSpace = {}\n  Queries = {}\nINVARIANT Report\nCHECK_DEADLOCK FALSE\n' % (thr, minlen, maxlen, ls))
    return cfg


def real_trace(tid, params, history, queries, enc):
    """enc(str) -> list of ids (lower-cased per character); history / queries are real strings"""
    from lib_trainer.detection_rules.multiword_detector import MultiWordDetector
    thr, minlen, maxlen = params
    mw = MultiWordDetector(threshold=thr, min_len=minlen, max_len=maxlen)
    err = None
    try:
        for pw in history:
            mw.train(pw)
    except Exception as ex:
        err = 'train raised ' + repr(ex)
    qs = []
    for s in queries:
        try:
            ok, parts = mw.parse(s)
            parts = list(parts)
        except Exception as ex:
            ok, parts = False, []
            err = err or 'parse(%r) raised %r' % (s, ex)
        qs.append({'s': enc(s), 'ok': bool(ok), 'parts': [enc(p) for p in parts],
                   'raw': [ord(c) for c in s], 'rawparts': [[ord(c) for c in p] for p in parts]})
    return {'tid': tid, 'hist': [enc(pw.lower()) for pw in history], 'cnts': [[enc(w), c] for w, c in dump_trie(mw)],
            'queries': qs}, err


WORDS = ['pass', 'word', 'love', 'monkey', 'chair', 'table', 'dragon', 'moon', 'star', 'été', 'über', 'пароль', 'любовь', 'sun', 'my']


def random_history(rng):
    words = rng.sample(WORDS, rng.randint(3, 7))
    hist = []
    for w in words:
        hist += [rng.choice([w, w.capitalize(), w.upper()])] * rng.choice([1, 3, 4, 5, 5, 6, 9])
    for _ in range(rng.randint(3, 12)):
        a, b = rng.choice(words), rng.choice(words)
        sep = rng.choice(['', '', '1', '!', ' ', '12', '_', '-'])
        shape = rng.choice(['ab', 'asb', 'sa', 'as', 'short', 'long', 'mid', 'sas'])
        if shape == 'ab':
            pw = a + b
        elif shape == 'asb':
            pw = a + sep + b
        elif shape == 'sa':
            pw = rng.choice(['1', '!!', '2019']) + a
        elif shape == 'as':
            pw = a + rng.choice(['1', '!!', '2019'])
        elif shape == 'short':
            pw = rng.choice(['my', 'i', 'abc', 'xy']) + rng.choice(['1', '!', ' ', '_']) + a       # a short run, then a word
        elif shape == 'long':
            pw = (a + b) * 3                                                                       # may exceed max_len
        elif shape == 'mid':
            pw = a[:2] + rng.choice(['1', '-']) + a[2:] + rng.choice(['1', '']) + b                # runs cut inside a word
        else:
            pw = rng.choice(['!', '1']) + a + rng.choice(['!', '1']) + b + rng.choice(['!', '1'])
        hist += [pw] * rng.choice([1, 1, 2, 5, 6])
    rng.shuffle(hist)
    return words, hist


def stage(tier, rng, verdict):
    core.use_repo()
    mc = mc_stage(tier)
    # ---------------- spec -> code ----------------
    space = export_space(tier)
    tables, queries = space['tables'], [''.join(x) for x in space['queries']]
    idx = list(range(len(tables)))
    E = EXPORT[tier]
    p = (E['Thr'], E['MinLen'], E['MaxLen'])
    enc_s = lambda s: [c.lower() for c in s]
    tr_a, meta = [], {}
    for n, i in enumerate(idx, 1):
        hist = []
        for e in tables[i]:
            hist += [''.join(e['w'])] * e['c']
        # passwords that must not change any count: too short, too long, letter runs shorter than MinLen
        for noise in rng.sample(['1', 'a', 'a1b', '1a1', 'ab' * 4, 'a1b1a', 'b1a', 'a1ab', 'b1b1'], rng.randint(0, 3)):
            hist += [noise] * p[0]
        rng.shuffle(hist)
        qs = [q if rng.random() < 0.7 else q.upper() for q in queries]
        t, err = real_trace(n, p, hist, qs, enc_s)
        tr_a.append(t)
        meta[('a', n)] = {'kind': 'model-checked count table', 'params': p, 'table': [[''.join(e['w']), e['c']] for e in tables[i]],
                          'history': hist, 'error': err}
    cfg_a = trace_cfg(p[0], p[1], p[2], ['a', 'b'], quoted=True)
    va, sta = core.validate_traces('TrMultiWord.tla', tr_a, cfg=cfg_a, chunk=100, timeout=900)
    # ---------------- code -> spec ----------------
    tr_b = []
    letters = set()
    enc_i = lambda s: [ord(c.lower()) if len(c.lower()) == 1 else ord(c) for c in s]
    for n in range(1, (30 if tier == 'quick' else 400) + 1):
        words, hist = random_history(rng)
        qs = set()
        for _ in range(40):
            k = rng.choice([1, 2, 2, 3, 3, 4])
            s = ''.join(rng.choice(words) for _ in range(k))
            if rng.random() < 0.3:
                s = s[:-1]
            if rng.random() < 0.2:
                s = rng.choice(['my', 'i', 'abc', 'xy']) + s
            qs.add(rng.choice([s, s.capitalize(), s.upper(), s.title()]))
        qs = sorted(x for x in qs if x)
        t, err = real_trace(n, (5, 4, 21), hist, qs, enc_i)
        tr_b.append(t)
        meta[('b', n)] = {'kind': 'random history', 'params': (5, 4, 21), 'history': hist[:60], 'queries': qs[:12], 'error': err}
        for pw in hist:
            letters.update(ord(c) for c in pw.lower() if c.isalpha())
        for s in qs:
            letters.update(ord(c.lower()) for c in s if c.isalpha() and len(c.lower()) == 1)
    cfg_b = trace_cfg(5, 4, 21, letters, quoted=False)
    vb, stb = core.validate_traces('TrMultiWord.tla', tr_b, cfg=cfg_b, chunk=10, timeout=900)
    n_bad = 0
    drift = []
    for key, vs, trs in (('a', va, tr_a), ('b', vb, tr_b)):
        for t in trs:
            v = vs[t['tid']]
            m = meta[(key, t['tid'])]
            failing = (list(v[1]) if isinstance(v[1], (tuple, list)) else [v[1]]) if v[0] != 'ACCEPT' else []
            if m['error']:
                failing.append('C05_parsing_never_raises')
            prop = [c for c in failing if c.startswith('C05_')]
            if prop:
                verdict.violation(dict(m, clause='+'.join(prop), failing=prop, check='multiword ' + m['kind'], password='multi-word detector'),
                                  'clauses %s; %s' % (prop, core.short({k: m[k] for k in ('kind', 'params', 'error', 'history')}, 300)))
                n_bad += 1
            if any(c.startswith('I_') for c in failing):
                drift.append({'kind': m['kind'], 'clauses': [c for c in failing if c.startswith('I_')], 'history': m['history'][:12]})

    def corrupt(t):
        for qq in t['queries']:
            if len(qq['parts']) > 1:
                qq['parts'] = [qq['parts'][0] + qq['parts'][1]] + qq['parts'][2:]       # a split the detector did not make
                qq['rawparts'] = [qq['rawparts'][0] + qq['rawparts'][1]] + qq['rawparts'][2:]
                return t
        return None
    acc = [t for t in tr_b if vb[t['tid']][0] == 'ACCEPT']
    selftest = core.binding_selftest('TrMultiWord.tla', acc, corrupt, cfg=cfg_b)
    n_split = sum(1 for t in tr_a + tr_b for qq in t['queries'] if len(qq['parts']) > 1)
    return {'model_checking': mc, 'tables_of_model_space_loaded_into_real_detector': len(tr_a), 'queries_per_table': len(queries),
            'random_histories': len(tr_b), 'real_parse_calls': sum(len(t['queries']) for t in tr_a + tr_b), 'real_splits_seen': n_split,
            'trace_validation': {'model_space': sta, 'random': stb}, 'binding_selftest': selftest, 'violations': n_bad,
            'impl_conformance': {'result': 'drift' if drift else 'conforms', 'n_drift': len(drift), 'drift_examples': drift[:3]}}
