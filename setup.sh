#!/bin/sh
# offline setup: tool presence + parse every specification
cd "$(dirname "$0")" || exit 1
command -v java >/dev/null || { echo "java missing"; exit 1; }
test -x /venv/bin/python || { echo "/venv/bin/python missing"; exit 1; }
test -f /opt/veriftools/tla/tla2tools.jar || { echo "tla2tools missing"; exit 1; }
rc=0
for f in spec/*.tla; do
  out=$(cd spec && java -cp /opt/veriftools/tla/tla2tools.jar:/opt/veriftools/tla/CommunityModules-deps.jar tla2sany.SANY "$(basename "$f")" 2>&1)
  if echo "$out" | grep -qiE "error|abort"; then echo "SANY failed on $f"; echo "$out" | tail -5; rc=1; fi
done
mkdir -p evidence replays
exit $rc
