#!/bin/sh
# usage: seedsweep.sh "<ids>" "<seeds>"  -- runs quick checks over seeds without touching evidence; prints failures
cd /verif
for id in $1; do for sd in $2; do
  out=$(VERIF_SEED=$sd VERIF_NOEVIDENCE=1 ./check $id --tier quick 2>&1); rc=$?
  if [ $rc -ne 0 ]; then echo "FAIL $id seed=$sd rc=$rc: $(echo "$out" | grep -E 'VIOLATION|MACHINERY|Error' | head -2 | cut -c1-300)"; else echo "ok $id seed=$sd"; fi
done; done
