------------------------------- MODULE TrTrain -------------------------------
(***************************************************************************)
(* P-layer trace specification for C06 and C03: one real training.         *)
(*  kind "list"   one saved list: T.recs = the file's records in order     *)
(*                [v value ids, c count, ok] where the harness converted   *)
(*                the written probability p to c = round(p * total) and    *)
(*                ok = (p == c / total in binary64, 1e-12 for the          *)
(*                structure list); T.tally = what the trainer had counted  *)
(*                (captured in memory) as [v, c]; T.total                  *)
(*                counts of the structure list are scaled by T.scale (the  *)
(*                coverage numerator) so that the Markov pseudo-count is   *)
(*                an integer                                               *)
(*  kind "grammar" the structure list clauses: T.cov = <<num, den>>,       *)
(*                T.n passwords, T.mc scaled Markov count in the file      *)
(*                (-1 absent), T.nstruct, T.unsupported_in_grammar,        *)
(*                T.unsupported_in_raw_only                                *)
(*  kind "same"   two trainings of the same input: file digests            *)
(*  kind "lang"   C03: T.supported = training passwords without e-mail /   *)
(*                website segment (ids), T.guesses = every guess the real  *)
(*                guesser emitted with --skip_brute (ids), T.sum_ok        *)
(***************************************************************************)
EXTENDS Integers, Sequences, FiniteSets, TLC, TLCExt, Json, IOUtils

Traces == TLCEval(ndJsonDeserialize(IOEnv.TRACE_FILE))
NT == Len(Traces)
VARIABLES tid, l
tvars == <<tid, l>>
T == Traces[tid]
ToSet(s) == { s[i] : i \in DOMAIN s }
BagOfSeq(s) == [x \in ToSet(s) |-> Cardinality({ i \in DOMAIN s : s[i] = x })]
Sum(s) == LET F[i \in 0..Len(s)] == IF i = 0 THEN 0 ELSE F[i - 1] + s[i] IN F[Len(s)]

NClauses == CASE T.kind = "list" -> 5 [] T.kind = "grammar" -> 4 [] T.kind = "same" -> 1 [] OTHER -> 2
ClauseName(k) ==
  CASE T.kind = "list"    -> <<"C06_every_item_exactly_once", "C06_probability_is_count_over_total", "C06_most_to_least_probable",
                               "C06_sums_to_one", "C06_float_identity">>[k]
    [] T.kind = "grammar" -> <<"C06_markov_pseudo_count", "C06_markov_absent_for_coverage_1", "C06_markov_only_for_coverage_0",
                               "C06_email_website_structures_only_in_raw_list">>[k]
    [] T.kind = "same"    -> <<"C06_training_deterministic">>[k]
    [] OTHER              -> <<"C03_every_supported_password_generated", "C03_probabilities_sum_to_one">>[k]
ClauseHolds(k) ==
  CASE T.kind = "list" /\ k = 1 -> /\ Cardinality(ToSet([i \in DOMAIN T.recs |-> T.recs[i].v])) = Len(T.recs)
                                   /\ ToSet([i \in DOMAIN T.recs |-> T.recs[i].v]) = ToSet([i \in DOMAIN T.tally |-> T.tally[i][1]])
    [] T.kind = "list" /\ k = 2 -> BagOfSeq([i \in DOMAIN T.recs |-> <<T.recs[i].v, T.recs[i].c>>]) = BagOfSeq(T.tally)
    [] T.kind = "list" /\ k = 3 -> \A i \in 1..(Len(T.recs) - 1) : T.recs[i].c >= T.recs[i + 1].c
    [] T.kind = "list" /\ k = 4 -> Sum([i \in DOMAIN T.recs |-> T.recs[i].c]) = T.total
    [] T.kind = "list" /\ k = 5 -> \A i \in DOMAIN T.recs : T.recs[i].ok
    [] T.kind = "grammar" /\ k = 1 -> (T.cov[1] # 0 /\ T.cov[1] # T.cov[2]) => T.mc = T.n * (T.cov[2] - T.cov[1])
    [] T.kind = "grammar" /\ k = 2 -> (T.cov[1] = T.cov[2]) <=> (T.mc = -1)
    [] T.kind = "grammar" /\ k = 3 -> T.cov[1] = 0 => (T.nstruct = 1 /\ T.mc # -1)
    [] T.kind = "grammar" /\ k = 4 -> T.unsupported_in_grammar = 0 /\ T.unsupported_missing_in_raw = 0
    [] T.kind = "same" -> T.a = T.b
    [] T.kind = "lang" /\ k = 1 -> ToSet(T.supported) \subseteq ToSet(T.guesses)
    [] T.kind = "lang" /\ k = 2 -> T.sum_ok

Failing == SelectSeq([k \in 1..NClauses |-> IF ClauseHolds(k) = TRUE THEN "" ELSE ClauseName(k)], LAMBDA x : x # "")
TInit == tid \in 1..NT /\ l = 1
TStep == /\ l = 1 /\ l' = 2 /\ UNCHANGED tid
TSpec == TInit /\ [][TStep]_tvars
Report == l = 1 => IF Failing = <<>> THEN PrintT(<<"ACCEPT", T.tid>>) ELSE PrintT(<<"STUCK", T.tid, Failing>>)
=============================================================================
