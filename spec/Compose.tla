------------------------------- MODULE Compose -------------------------------
(***************************************************************************)
(* The three tools composed on one training list (coverage 1, no Markov):  *)
(*   trainer   lib_trainer: segment every password (letter / digit / other *)
(*             runs - on this alphabet no walk, year, context string,      *)
(*             e-mail, website or multi-word can arise), tally words       *)
(*             (lower-cased), masks, digit and symbol strings per length   *)
(*             and the base structures; probability = count / table total  *)
(*   guesser   lib_guesser: a derivation picks a base structure and one    *)
(*             item per variable (word AND mask for every alpha variable); *)
(*             it spells the concatenation with masks applied              *)
(*   scorer    lib_scorer: segments the candidate the same way and         *)
(*             multiplies the looked-up probabilities (0 when missing)     *)
(* Probabilities are exact rationals <<num, den>>.                         *)
(* P-layer                                                                 *)
(*   C03  every training password is spelled by some derivation of the     *)
(*        trained grammar; the derivations' probabilities sum to 1         *)
(*   C13  a non-zero score is the probability of a derivation that spells  *)
(*        exactly the candidate                                            *)
(*   C06  every table sums to 1 (count / total)                            *)
(* (letters with one-to-one case mapping only; the others are Scorer.tla's *)
(* business)                                                               *)
(***************************************************************************)
EXTENDS Integers, Sequences, FiniteSets, TLC, SequencesExt, FiniteSetsExt

CONSTANTS MaxPw,      \* training passwords have 1..MaxPw characters
          MaxList,    \* a training list has 1..MaxList passwords
          MaxCand     \* candidates have 1..MaxCand characters

Lowers == {"a", "b"}
Uppers == {"A"}
Chars == Lowers \cup Uppers \cup {"1", "!"}
IsA(c) == c \in Lowers \cup Uppers
IsD(c) == c = "1"
IsU(c) == c \in Uppers
Lower(c) == CASE c = "A" -> "a" [] OTHER -> c
Upper(c) == CASE c = "a" -> "A" [] c = "b" -> "B" [] OTHER -> c          \* "B" can be spelled by the guesser but never occurs in a list
Strs(n) == UNION { [1..k -> Chars] : k \in 1..n }

(* ---- segmentation (shared by trainer and scorer) ---- *)
Kind(c) == IF IsA(c) THEN "A" ELSE IF IsD(c) THEN "D" ELSE "O"
RECURSIVE Runs(_)
Runs(t) == IF t = <<>> THEN <<>>
           ELSE LET k == Kind(t[1])
                    n == CHOOSE n \in 1..Len(t) : (\A i \in 1..n : Kind(t[i]) = k) /\ (n = Len(t) \/ Kind(t[n + 1]) # k)
                IN << [t |-> SubSeq(t, 1, n), k |-> k] >> \o Runs(SubSeq(t, n + 1, Len(t)))
LowerStr(t) == [i \in DOMAIN t |-> Lower(t[i])]
MaskOf(t) == [i \in DOMAIN t |-> IF IsU(t[i]) THEN "U" ELSE "L"]
Struct(pw) == LET sl == Runs(pw) IN [i \in DOMAIN sl |-> <<sl[i].k, Len(sl[i].t)>>]
(* the items a password contributes: <<table, length, item>>; an alpha run contributes a word and a mask *)
Items(pw) == LET sl == Runs(pw) IN
   FlattenSeq([i \in DOMAIN sl |->
      IF sl[i].k = "A" THEN << <<"A", Len(sl[i].t), LowerStr(sl[i].t)>>, <<"C", Len(sl[i].t), MaskOf(sl[i].t)>> >>
      ELSE << <<sl[i].k, Len(sl[i].t), sl[i].t>> >>])

(* ---- trainer: tallies over the list (AllItems(list) is cached in the state variable `items`: TLC re-evaluates ---- *)
(* ---- operators on every use)                                                                                    ---- *)
AllItems(L) == FlattenSeq([k \in DOMAIN L |-> Items(L[k])])
Count(I, it) == Cardinality({ j \in DOMAIN I : I[j] = it })
Total(I, tab, n) == Cardinality({ j \in DOMAIN I : I[j][1] = tab /\ I[j][2] = n })
Table(I, tab, n) == { I[j][3] : j \in { j \in DOMAIN I : I[j][1] = tab /\ I[j][2] = n } }
P(I, tab, n, v) == <<Count(I, <<tab, n, v>>), Total(I, tab, n)>>            \* only used for tables that exist
Bases(L) == { Struct(L[k]) : k \in DOMAIN L }
PBase(L, b) == <<Cardinality({ k \in DOMAIN L : Struct(L[k]) = b }), Len(L)>>

(* ---- rationals ---- *)
Mul(x, y) == <<x[1] * y[1], x[2] * y[2]>>
Eq(x, y) == x[1] * y[2] = y[1] * x[2]
IsZero(x) == x[1] = 0
RECURSIVE Prod(_)
Prod(s) == IF s = <<>> THEN <<1, 1>> ELSE Mul(Head(s), Prod(Tail(s)))

(* ---- scorer ---- *)
Score(L, I, s) ==
   LET its == Items(s)
       f(i) == IF Total(I, its[i][1], its[i][2]) = 0 THEN <<0, 1>>              \* KeyError: no table of that length
               ELSE P(I, its[i][1], its[i][2], its[i][3])
       b == IF Struct(s) \in Bases(L) THEN PBase(L, Struct(s)) ELSE <<0, 1>>
   IN Mul(Prod([i \in DOMAIN its |-> f(i)]), b)

(* ---- guesser: derivations of a base structure; the variable list has C<n> after every A<n> ---- *)
Vars(b) == FlattenSeq([i \in DOMAIN b |-> IF b[i][1] = "A" THEN << <<"A", b[i][2]>>, <<"C", b[i][2]>> >> ELSE << b[i] >>])
Derivs(I, b) == LET vs == Vars(b)
                    tb == [i \in DOMAIN vs |-> Table(I, vs[i][1], vs[i][2])] IN
                { d \in [DOMAIN vs -> UNION { tb[i] : i \in DOMAIN vs }] : \A i \in DOMAIN vs : d[i] \in tb[i] }
ApplyMask(w, m) == [i \in DOMAIN w |-> IF m[i] = "U" THEN Upper(w[i]) ELSE w[i]]
RECURSIVE SpellFrom(_, _, _)
SpellFrom(vs, d, i) == IF i > Len(vs) THEN <<>>
                       ELSE IF vs[i][1] = "A" THEN ApplyMask(d[i], d[i + 1]) \o SpellFrom(vs, d, i + 2)
                       ELSE d[i] \o SpellFrom(vs, d, i + 1)
Spell(b, d) == SpellFrom(Vars(b), d, 1)
DProb(L, I, b, d) == LET vs == Vars(b) IN Mul(Prod([i \in DOMAIN vs |-> P(I, vs[i][1], vs[i][2], d[i])]), PBase(L, b))

---------------------------------------------------------------------------
VARIABLES list, items, cand
vars == <<list, items, cand>>
Lists == UNION { [1..n -> Strs(MaxPw)] : n \in 1..MaxList }
(* the candidate is chosen in a step (not in Init) so that TLC's workers share the evaluation *)
Init == list \in Lists /\ items = AllItems(list) /\ cand = <<>>
Pick == cand = <<>> /\ cand' \in Strs(MaxCand) /\ UNCHANGED <<list, items>>
Spec == Init /\ [][Pick]_vars

(* C03 *)
TrainingReproduced == cand = <<>> => \A k \in DOMAIN list : \E d \in Derivs(items, Struct(list[k])) : Spell(Struct(list[k]), d) = list[k]
(* sum over all derivations = 1, in integers over the common denominator of each structure *)
SumNum(S, f(_)) == FoldSet(LAMBDA x, acc : acc + f(x), 0, S)
SumsToOne == cand # <<>> \/ LET D == Len(list)
                 per(b) == LET ds == Derivs(items, b)
                               den == IF ds = {} THEN 1 ELSE DProb(list, items, b, CHOOSE d \in ds : TRUE)[2] IN
                           \* every derivation of b has the same denominator (product of the table totals x |list|)
                           /\ \A d \in ds : DProb(list, items, b, d)[2] = den
                           /\ SumNum(ds, LAMBDA d : DProb(list, items, b, d)[1]) * D = den * PBase(list, b)[1]
             IN \A b \in Bases(list) : per(b)
(* C13 *)
PromiseKept == LET sc == Score(list, items, cand) IN
   (cand # <<>> /\ ~IsZero(sc)) => /\ Struct(cand) \in Bases(list)
                  /\ \E d \in Derivs(items, Struct(cand)) :
                        Spell(Struct(cand), d) = cand /\ Eq(DProb(list, items, Struct(cand), d), sc)
(* and conversely: whatever the guesser spells gets exactly the derivation's probability from the scorer (the   *)
(* segmentation is a function of the string, so the derivation spelling a string is unique)                   *)
ScoreOfGuess == (cand # <<>> /\ Struct(cand) \in Bases(list)) =>
                   \A d \in Derivs(items, Struct(cand)) :
                      Spell(Struct(cand), d) = cand => Eq(Score(list, items, cand), DProb(list, items, Struct(cand), d))
(* structures of other shape never spell the candidate *)
OnlyOwnStructure == cand # <<>> => \A b \in Bases(list) \ {Struct(cand)} : \A d \in Derivs(items, b) : Spell(b, d) # cand
(* C06 *)
TablesSumToOne == cand = <<>> => \A it \in { items[j] : j \in DOMAIN items } :
                     SumNum(Table(items, it[1], it[2]), LAMBDA v : Count(items, <<it[1], it[2], v>>)) = Total(items, it[1], it[2])
=============================================================================
