----------------------------- MODULE MC_Smoothing -----------------------------
(* every (count, total, adjust) with count <= total <= MaxTotal: the level is determined (one admissible level), levels  *)
(* fall as counts rise, a count of 0 is level 10 and the whole table is level 0 when count * adjust >= total            *)
EXTENDS Smoothing
CONSTANT MaxTotal
Adjusts == {1, 2, 250}
VARIABLES t, a
vars == <<t, a>>
Init == t \in 1..MaxTotal /\ a \in Adjusts
Next == UNCHANGED vars
Spec == Init /\ [][Next]_vars
Determined == \A c \in 0..t : Cardinality(Admissible(c, t, a)) = 1
Monotone == \A c \in 1..t : \A L1 \in Admissible(c - 1, t, a), L2 \in Admissible(c, t, a) : L2 <= L1
ZeroIsMax == Admissible(0, t, a) = {MaxLevel}
CertainIsZero == \A c \in 1..t : c * a >= t => Admissible(c, t, a) = {0}
=============================================================================
