SPECIFICATION Spec
CONSTANTS
  MaxCycles = 2
  StrictParent = FALSE
  Grammars <- FileGrammars
INVARIANT OrderOK
INVARIANT NoDupFresh
INVARIANT FrontierFresh
INVARIANT RepeatsOnlyTies
INVARIANT NothingLost
CHECK_DEADLOCK FALSE
