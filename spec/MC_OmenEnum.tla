----------------------------- MODULE MC_OmenEnum -----------------------------
(***************************************************************************)
(* Model checking of the generator model OmenEnum against the P-layer      *)
(* Omen!LevelSet: for every small model, every level, and every second     *)
(* level generated afterwards with the same memo, the strings emitted      *)
(* until exhaustion are exactly the level set, each once.                  *)
(***************************************************************************)
EXTENDS OmenEnum, Omen

CONSTANTS NA, NG, MaxLen, Levels, MaxLv, FixFirst, Rounds

Alpha == 1..NA
Partial(D, R) == UNION { [S -> R] : S \in SUBSET D }
PModels == { [n |-> NG, ln |-> l, ip |-> i, cp |-> c] :
               l \in [1..MaxLen -> Levels], i \in Partial(Strings(Alpha, NG - 1), Levels) \ { << >> },
               c \in Partial(Strings(Alpha, NG), Levels) }

(* the ordered model the generator walks: lists in one canonical file order *)
Ordered(M) ==
   [n |-> M.n,
    lnl |-> [lv \in 0..MaxLevel |-> LET Ls == SelectSeq([L \in 1..Len(M.ln) |-> L], LAMBDA L : L >= M.n /\ M.ln[L] = lv)
                                     IN [k \in DOMAIN Ls |-> Ls[k] - (M.n - 1)]],
    ipl |-> [lv \in 0..MaxLevel |-> SetToSeq({ k \in DOMAIN M.ip : M.ip[k] = lv })],
    cpl |-> [p \in { SubSeq(c, 1, M.n - 1) : c \in DOMAIN M.cp } |->
               [lv \in { M.cp[c] : c \in { c \in DOMAIN M.cp : SubSeq(c, 1, M.n - 1) = p } } |->
                  SetToSeq({ c[M.n] : c \in { c \in DOMAIN M.cp : SubSeq(c, 1, M.n - 1) = p /\ M.cp[c] = lv } })]]]

VARIABLES M, T, round, st, memo, out, phase, resumed
vars == <<M, T, round, st, memo, out, phase, resumed>>
EmptyMemo == [k \in {} |-> <<>>]

Init == /\ M \in PModels /\ T \in 0..MaxLv /\ round = 1
        /\ memo = EmptyMemo /\ out = <<>>
        /\ st = MCInit(Ordered(M), T, FixFirst)
        /\ phase = "run" /\ resumed = FALSE

Step == /\ phase = "run" /\ ~st.raised
        /\ LET r == MCNext(Ordered(M), st, memo) IN
             /\ memo' = r.memo
             /\ st' = [st EXCEPT !.mc = r.mc]
             /\ IF r.g = None THEN phase' = "exhausted" /\ UNCHANGED out
                ELSE out' = Append(out, r.g) /\ UNCHANGED phase
        /\ UNCHANGED <<M, T, round, resumed>>

(* C15: the user quits between two guesses; save_session pickles target level, both cursors and the parse tree,
   a new process loads them into a fresh MarkovCracker with a fresh Optimizer (empty memo) and goes on *)
SaveAndResume == /\ phase = "run" /\ ~st.raised /\ ~resumed /\ out # <<>>
                 /\ memo' = EmptyMemo /\ resumed' = TRUE
                 /\ UNCHANGED <<M, T, round, st, out, phase>>

(* the same Optimizer is handed to the next MarkovCracker (PcfgGrammar.omen_optimizer) *)
NextLevel == /\ phase = "exhausted" /\ round < Rounds
             /\ \E t2 \in 0..MaxLv :
                   /\ T' = t2 /\ st' = MCInit(Ordered(M), t2, FixFirst)
             /\ round' = round + 1 /\ out' = <<>> /\ phase' = "run" /\ resumed' = FALSE
             /\ UNCHANGED <<M, memo>>

Next == Step \/ NextLevel \/ SaveAndResume
Spec == Init /\ [][Next]_vars
(* C10 "and then reports exhaustion": with the generator being called again and again, every level ends *)
FairSpec == Spec /\ WF_vars(Step)
ReportsExhaustion == <>(phase = "exhausted" \/ st.raised)

(* C10 *)
NoRaise == ~st.raised
EachOnce == Cardinality({ out[i] : i \in DOMAIN out }) = Len(out)
OnlyLevel == \A i \in DOMAIN out : Level(M, out[i]) = T
Exact == phase = "exhausted" => { out[i] : i \in DOMAIN out } = LevelSet(M, T)
=============================================================================
