SPECIFICATION Spec
CONSTANTS
  MaxUnits = 2
  MaxRun = 2
  Rich = FALSE
  MaxN = 7
  Runs <- MCRuns
  UpTable <- MCUp
INVARIANT LimitExact
INVARIANT PrefixSoFar
INVARIANT ProductOK
CHECK_DEADLOCK FALSE
