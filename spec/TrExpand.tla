------------------------------ MODULE TrExpand ------------------------------
(***************************************************************************)
(* Trace specification for C04 / C09 (and C17's --size part).              *)
(*  kind "pt"    one real create_guesses(pt) call without limit:           *)
(*               groups as loaded, printed lines, returned count, per-value*)
(*               probability ranks read from the files by a neutral reader *)
(*  kind "limit" one real run with --limit N next to the unlimited run of  *)
(*               the same ruleset/flags (and the process's stdout if the   *)
(*               run went through the command line)                        *)
(*  kind "gen"   I-layer conformance: create_guesses(pt, limit) must equal *)
(*               Expand!CreateGuesses line by line (drift, not a verdict)  *)
(* Strings are sequences of code points; UpTable is str.upper() on every   *)
(* character that occurs, written by the harness to UP_FILE.               *)
(***************************************************************************)
EXTENDS ExpandDefs, TLCExt, Json, IOUtils

Traces == TLCEval(ndJsonDeserialize(IOEnv.TRACE_FILE))
NT == Len(Traces)
UpRaw == TLCEval(JsonDeserialize(IOEnv.UP_FILE))
TrUp == [c \in { UpRaw[j][1] : j \in 1..Len(UpRaw) } |->
            (LET j == CHOOSE j \in 1..Len(UpRaw) : UpRaw[j][1] = c IN UpRaw[j][2])]

VARIABLES tid, l
tvars == <<tid, l>>
T == Traces[tid]

Kinds == [pt |-> 4, limit |-> 3, gen |-> 2, honey |-> 2]
NClauses == Kinds[T.kind]
ClauseName(k) ==
  CASE T.kind = "pt"    -> <<"C04_count_is_lines", "C04_product", "C04_same_probability", "C04_reported_probability_is_the_product">>[k]
    [] T.kind = "limit" -> <<"C09_length", "C09_prefix", "C09_stdout_is_guess_stream">>[k]
    [] T.kind = "honey" -> <<"C16_word_is_the_chosen_derivation", "C16_word_in_the_language">>[k]
    [] OTHER            -> <<"gen_lines", "gen_count">>[k]
(* only the clause asked for is evaluated *)
ClauseHolds(k) ==
  CASE T.kind = "pt" /\ k = 1 -> T.count = Len(T.lines)
    [] T.kind = "pt" /\ k = 2 -> BagOfSeq(T.lines) = Expected(T.groups)
    [] T.kind = "pt" /\ k = 3 -> \A g \in 1..Len(T.groups) : \A j \in 1..Len(T.groups[g].fr) :
                                      T.groups[g].fr[j] = T.groups[g].gr
    (* T.rp = rank of the probability the guesser computes for the pre-terminal (_find_prob, what the queue attaches),   *)
    (* T.pp = rank of base-structure probability x probability of every chosen group as loaded (0 / 0: not recorded)    *)
    [] T.kind = "pt" /\ k = 4 -> T.rp = T.pp
    [] T.kind = "limit" /\ k = 1 -> Len(T.lines) = Min2(T.N, Len(T.full))
    [] T.kind = "limit" /\ k = 2 -> T.lines = SubSeq(T.full, 1, Min2(T.N, Len(T.full)))
    [] T.kind = "limit" /\ k = 3 -> T.hasout => T.stdout = T.lines
    [] T.kind = "gen" /\ k = 1 -> LET r == CreateGuesses(T.groups, T.limit) IN r.lines = T.lines /\ r.n = T.count
    [] T.kind = "gen" /\ k = 2 -> TRUE
    [] T.kind = "honey" /\ k = 1 -> Derive(T.groups, T.ch, Len(T.groups)) = T.line
    [] T.kind = "honey" /\ k = 2 -> T.line \in DOMAIN Expected(T.groups)

TInit == tid \in 1..NT /\ l = 1
TStep == /\ l <= NClauses /\ (ClauseHolds(l) = TRUE) /\ l' = l + 1 /\ UNCHANGED tid
TSpec == TInit /\ [][TStep]_tvars
Accepted == l = NClauses + 1
Report == /\ (Accepted => PrintT(<<"ACCEPT", T.tid>>))
          /\ ((l <= NClauses /\ (ClauseHolds(l) = FALSE)) => PrintT(<<"STUCK", T.tid, l, ClauseName(l)>>))
=============================================================================
