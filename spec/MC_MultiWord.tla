---------------------------- MODULE MC_MultiWord ----------------------------
EXTENDS MultiWord, SequencesExt
CONSTANTS MaxPwLen, MaxHist, MaxQ, WordLens, MaxBase
Alphabet == Letters \cup {"1"}
Strs(S, lo, hi) == UNION { [1..n -> S] : n \in lo..hi }
(* train model: every history of at most MaxHist passwords of at most MaxPwLen characters over {letters, 1} *)
MCHists == UNION { [1..n -> Strs(Alphabet, 0, MaxPwLen)] : n \in 1..MaxHist }
(* parse model: every set of base words with lengths in WordLens (count Thr), plus one word one short of the threshold *)
MCWords == UNION { [1..n -> Letters] : n \in WordLens }
Bases == { B \in SUBSET MCWords : Cardinality(B) <= MaxBase }
MCCnt == { [w \in B |-> Thr] : B \in Bases }
           \cup { [w \in B |-> IF w = lo THEN Thr - 1 ELSE Thr] : B \in { X \in SUBSET MCWords : Cardinality(X) = 2 }, lo \in MCWords }
MCCntOK == { c \in MCCnt : \A w \in DOMAIN c : c[w] >= 1 }
MCQueries == Strs(Letters, 0, MaxQ)
NoHists == { <<>> }
NoCnt == { Empty }
NoQ == { <<>> }
=============================================================================
