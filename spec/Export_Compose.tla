---------------------------- MODULE Export_Compose ----------------------------
(* writes the training lists and candidate strings Compose.tla's model check quantifies over *)
EXTENDS Compose, Json, IOUtils
ASSUME JsonSerialize(IOEnv.OUT_FILE, [lists |-> SetToSeq(Lists), cands |-> SetToSeq(Strs(MaxCand))])
ESpec == (list = 0 /\ items = 0 /\ cand = 0) /\ [][FALSE]_vars
=============================================================================
