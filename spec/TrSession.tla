------------------------------ MODULE TrSession ------------------------------
(***************************************************************************)
(* P-layer trace specification for C12 / C15 (and the session part of C08):*)
(* a history of one or more real guessing sessions on one ruleset.         *)
(*  T.E[k] = [p, m, g]  the expected (uninterrupted) guess stream: guess k *)
(*                      belongs to pre-terminal p (1,2,... in emission     *)
(*                      order), m = TRUE for a Markov pre-terminal, g = id *)
(*                      of the guess string                                *)
(*  T.sess[s].x[i] = [pos, g]  what session s wrote: string id g, aligned  *)
(*                      by the harness to position pos of E (0 = no        *)
(*                      alignment found); TLC re-checks E[pos].g = g       *)
(*  T.sess[s].q     the user explicitly asked to quit in this session      *)
(*  T.sess[s].noise the session wrote something to stdout that is not a guess *)
(*  T.sess[s].qn    guesses written by this session when the quit flag was *)
(*                  set (-1 = never)                                       *)
(*  T.sess[s].tie   pre-terminal whose probability equals the position     *)
(*                  restored into this session (0 = none): the only one    *)
(*                  that may be replayed (C08)                             *)
(*  The history ends with a session that was not asked to quit.            *)
(***************************************************************************)
EXTENDS Integers, Sequences, FiniteSets, TLC, TLCExt, Json, IOUtils

Traces == TLCEval(ndJsonDeserialize(IOEnv.TRACE_FILE))
NT == Len(Traces)
VARIABLES tid, si, nextpos, rpos    \* rpos: where a replay of the tied Markov level stands (0 = no replay so far)
tvars == <<tid, si, nextpos, rpos>>
T == Traces[tid]
NS == Len(T.sess)
NE == Len(T.E)
S == T.sess[si]

PosOf(p) == { k \in 1..NE : T.E[k].p = p }
(* the longest prefix of x that is the contiguous segment nextpos, nextpos+1, ... *)
SegLen(x) == LET ok == { n \in 0..Len(x) : \A i \in 1..n : x[i][1] = nextpos + i - 1 } IN
             CHOOSE n \in ok : \A m \in ok : m <= n
LastPos(x) == nextpos + SegLen(x) - 1
Replay(x) == SubSeq(x, SegLen(x) + 1, Len(x))

(* the tied pre-terminal's positions, walked cyclically: the only thing that may be replayed (C08) *)
TieFirst == CHOOSE k \in PosOf(S.tie) : \A j \in PosOf(S.tie) : k <= j
TieN == Cardinality(PosOf(S.tie))
TiePos(i) == TieFirst + ((i - 1) % TieN)
RStart == IF rpos = 0 THEN 1 ELSE rpos

Clauses == <<
  << "aligned",                 \A i \in DOMAIN S.x : S.x[i][1] \in 1..NE /\ T.E[S.x[i][1]].g = S.x[i][2] >>,
  << "C12_stream_not_reordered_or_altered",
        \/ Replay(S.x) = <<>>
        \/ (S.tie # 0 /\ \A i \in DOMAIN Replay(S.x) : Replay(S.x)[i][1] = TiePos(RStart + i - 1)) >>,
  << "C12_not_shortened_without_quit",  ~S.q => LastPos(S.x) = NE >>,
  << "C12_stops_only_at_boundary_or_between_markov_guesses",
        LET b == (IF Replay(S.x) = <<>> THEN LastPos(S.x) ELSE Replay(S.x)[Len(Replay(S.x))][1]) IN
          b = NE \/ b = nextpos - 1 \/ (b \in 1..(NE - 1) /\ (T.E[b].p # T.E[b + 1].p \/ T.E[b].m)) >>,
  << "C12_quit_takes_effect",
        \* S.qn = number of guesses this session had written when the quit flag was set (-1: never set).
        \* From then on at most the current pre-terminal is finished (or one more Markov guess is written).
        (S.qn >= 0 /\ S.qn < Len(S.x)) =>
           LET p == S.x[S.qn + 1][1]
               bound == IF p \in 1..NE THEN (IF T.E[p].m THEN p ELSE CHOOSE k \in PosOf(T.E[p].p) : \A j \in PosOf(T.E[p].p) : j <= k) ELSE 0
           IN \A i \in (S.qn + 1)..Len(S.x) : S.x[i][1] <= bound >>,
  << "C12_nothing_but_guesses_on_stdout",  ~S.noise >>,
  << "C15_C08_saved_state_is_the_remainder",  si = NS => (LastPos(S.x) = NE \/ Replay(S.x) # <<>>) >> >>

Failing == SelectSeq([k \in DOMAIN Clauses |-> IF Clauses[k][2] = TRUE THEN "" ELSE Clauses[k][1]], LAMBDA z : z # "")

TInit == tid \in 1..NT /\ si = 1 /\ nextpos = 1 /\ rpos = 0
(* a session is consumed only if all its clauses hold; the next one must start where it stopped *)
TStep == /\ si <= NS /\ (Failing = <<>>)
         /\ nextpos' = (IF Replay(S.x) = <<>> THEN LastPos(S.x) + 1 ELSE NE + 1)
         /\ rpos' = (IF Replay(S.x) = <<>> THEN rpos ELSE RStart + Len(Replay(S.x)))
         /\ si' = si + 1 /\ UNCHANGED tid
TSpec == TInit /\ [][TStep]_tvars
Accepted == si = NS + 1
Report == /\ (Accepted => PrintT(<<"ACCEPT", T.tid>>))
          /\ ((si <= NS /\ Failing # <<>>) => PrintT(<<"STUCK", T.tid, si, Failing>>))
=============================================================================
