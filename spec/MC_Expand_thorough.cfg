SPECIFICATION Spec
CONSTANTS
  MaxUnits = 2
  MaxRun = 2
  Rich = TRUE
  MaxN = 12
  PassLimit = TRUE
  Runs <- MCRuns
  UpTable <- MCUp
INVARIANT LimitExact
INVARIANT PrefixSoFar
INVARIANT ProductOK
CHECK_DEADLOCK FALSE
