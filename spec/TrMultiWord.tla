----------------------------- MODULE TrMultiWord -----------------------------
(***************************************************************************)
(* Trace specification for MultiWord.tla (C05, multi-word part).           *)
(* One trace = one real MultiWordDetector(Thr, MinLen, MaxLen):            *)
(*   T.hist     the training history (passwords as sequences of character  *)
(*              ids, already lower-cased by the harness the way train()    *)
(*              lower-cases them); Letters (cfg) = ids with isalpha()      *)
(*   T.cnts     the "count" leaves of the real trie after training:        *)
(*              <<word, count>>                                            *)
(*   T.queries  real parse() calls: s (lower-cased ids), ok, parts         *)
(*              (lower-cased ids), raw / rawparts (case-sensitive ids)     *)
(* The model's train() is RUN on T.hist (TrainNext, one step per           *)
(* character); in the final state the real trie must equal the model's     *)
(* table (I-layer), the table must be the tally of letter runs (P-layer),  *)
(* every real parse must be the model's parse (I-layer) and sound and      *)
(* complete with respect to the tallies (P-layer).                         *)
(* Thr, MinLen, MaxLen, Letters are cfg constants written by the harness.  *)
(***************************************************************************)
EXTENDS MultiWord, TLCExt, Json, IOUtils

Traces == TLCEval(ndJsonDeserialize(IOEnv.TRACE_FILE))
NT == Len(Traces)
VARIABLE tid
tvars == <<vars, tid>>
T == Traces[tid]

TInit == /\ tid \in 1..NT
         /\ hist = Traces[tid].hist /\ h = 1 /\ pos = 0 /\ idx = <<>> /\ run = 0 /\ cnt = Empty /\ q = <<>>
TNext == TrainNext /\ UNCHANGED tid
TSpec == TInit /\ [][TNext]_tvars
Done == h > Len(hist)

RealCnt == [w \in { T.cnts[i][1] : i \in DOMAIN T.cnts } |->
              T.cnts[CHOOSE i \in DOMAIN T.cnts : T.cnts[i][1] = w][2]]
(* P-layer table: tallies of maximal letter runs, computed once per trace *)
AllRuns == UNION { { <<k, r>> : r \in RunsOf(hist[k]) } : k \in { k \in DOMAIN hist : Admissible(hist[k]) } }
WordAt(x) == SubSeq(hist[x[1]], x[2][1], x[2][2])
TallyCnt == LET runs == AllRuns
                words == { WordAt(x) : x \in runs } IN
            [w \in { w \in words : Len(w) >= MinLen } |-> Cardinality({ x \in runs : WordAt(x) = w })]
RealResult(i) == [ok |-> T.queries[i].ok, parts |-> T.queries[i].parts]

NClauses == 6
(* I_ clauses are conformance with the I-layer (drift, never a verdict); C05_ clauses are the property *)
ClauseName(k) == <<"I_train_as_model", "I_counts_are_letter_run_tallies",
                   "I_parse_as_model", "C05_multiword_split_only_base_words",
                   "I_split_found_when_possible", "C05_multiword_parts_concatenate_to_input">>[k]
ClauseHolds(k) ==
  LET tc == TallyCnt IN
  CASE k = 1 -> cnt = RealCnt
    [] k = 2 -> RealCnt = tc
    [] k = 3 -> \A i \in DOMAIN T.queries : Parse(RealCnt, T.queries[i].s) = RealResult(i)
    [] k = 4 -> \A i \in DOMAIN T.queries : Sound(tc, T.queries[i].s, RealResult(i))
    [] k = 5 -> \A i \in DOMAIN T.queries : Complete(tc, T.queries[i].s, RealResult(i))
    [] k = 6 -> \A i \in DOMAIN T.queries : Concat(T.queries[i].rawparts) = T.queries[i].raw

Failing == SelectSeq([k \in 1..NClauses |-> IF ClauseHolds(k) = TRUE THEN "" ELSE ClauseName(k)], LAMBDA x : x # "")
Report == Done => IF Failing = <<>> THEN PrintT(<<"ACCEPT", T.tid>>) ELSE PrintT(<<"STUCK", T.tid, Failing>>)
=============================================================================
