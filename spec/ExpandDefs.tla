----------------------------- MODULE ExpandDefs -----------------------------
(***************************************************************************)
(* I-layer model of guess generation for one pre-terminal and of the       *)
(* --limit bookkeeping:                                                    *)
(*   lib_guesser/pcfg_grammar.py   create_guesses / _recursive_guesses /   *)
(*                                 omen_generate_guesses                   *)
(*   lib_guesser/cracking_session.py  the limit part of the run() loop     *)
(* with the P-layer of C04 (a pre-terminal expands to exactly the product  *)
(* of its groups, count = lines written) and C09 (--limit N writes exactly *)
(* the first min(N,total) lines of the unlimited run).                     *)
(*                                                                         *)
(* Characters are integers; Up(c) is the (possibly multi-character) upper  *)
(* casing.  A group is [k |-> "plain"|"cap"|"markov", v |-> Seq(value)];   *)
(* plain/markov values are strings (Seq of chars), cap values are masks    *)
(* (Seq of "U"/"L").                                                       *)
(***************************************************************************)
EXTENDS Integers, Sequences, FiniteSets, Bags, TLC, SequencesExt

CONSTANTS UpTable    \* function char -> Seq(char)   (identity on characters not in its domain)

NoLimit == -1
Truthy(limit) == limit # NoLimit /\ limit # 0          \* python: `if limit:` with limit None or an int

Up(c) == IF c \in DOMAIN UpTable THEN UpTable[c] ELSE <<c>>

(* the C branch: rewrite the last Len(mask) characters of cur *)
ApplyMask(cur, mask, masklen) ==
   LET cut == IF masklen >= Len(cur) THEN 0 ELSE Len(cur) - masklen        \* cur[:-mask_len]
       start == SubSeq(cur, 1, cut)
       endw == SubSeq(cur, cut + 1, Len(cur))
       \* `for item in mask: ... end_word[index]` : IndexError if the mask is longer than the word;
       \* well-formed rulesets never do that (masks of C<n> and words of A<n> have n characters)
       F[i \in 0..Len(mask)] == IF i = 0 THEN <<>>
                                ELSE F[i - 1] \o (IF mask[i] = "L" THEN <<endw[i]>> ELSE Up(endw[i]))
   IN start \o F[Len(mask)]

NewGuess(cur, g, i) == IF g.k = "cap" THEN ApplyMask(cur, g.v[i], Len(g.v[1])) ELSE cur \o g.v[i]

(* omen_generate_guesses(markov_cracker, limit) : strings of the level in generator order *)
OmenGen(strings, limit) ==
   LET n == IF Truthy(limit) /\ limit < Len(strings) THEN limit ELSE Len(strings)
   IN [lines |-> SubSeq(strings, 1, n), n |-> n]

RECURSIVE Gen(_, _, _, _), Loop(_, _, _, _, _, _)
(* _recursive_guesses(cur_guess, pt[k:], limit) -> printed lines (in order) and the returned count *)
Gen(pt, k, cur, limit) ==
   IF pt[k].k = "markov" THEN OmenGen(pt[k].v, limit)      \* ignores cur and the rest of pt (M stands alone)
   ELSE Loop(pt, k, cur, 1, limit, [lines |-> <<>>, n |-> 0])

Loop(pt, k, cur, i, limit, acc) ==
   LET g == pt[k] IN
   IF i > Len(g.v) THEN acc
   ELSE LET ng == NewGuess(cur, g, i) IN
        IF k = Len(pt)
          THEN LET acc2 == [lines |-> Append(acc.lines, ng), n |-> acc.n + 1] IN
               IF Truthy(limit)
                 THEN LET l2 == limit - 1 IN
                      IF (g.k = "cap" /\ l2 <= 0) \/ (g.k = "plain" /\ l2 = 0)
                        THEN acc2 ELSE Loop(pt, k, cur, i + 1, l2, acc2)
                 ELSE Loop(pt, k, cur, i + 1, limit, acc2)
          ELSE LET r == Gen(pt, k + 1, ng, limit)
                   acc2 == [lines |-> acc.lines \o r.lines, n |-> acc.n + r.n] IN
               IF Truthy(limit)
                 THEN LET l2 == limit - r.n IN
                      IF l2 <= 0 THEN acc2 ELSE Loop(pt, k, cur, i + 1, l2, acc2)
                 ELSE Loop(pt, k, cur, i + 1, limit, acc2)

CreateGuesses(pt, limit) == Gen(pt, 1, <<>>, limit)

---------------------------------------------------------------------------
(* P-layer of C04: the declarative product *)
RECURSIVE ChoiceTuples(_, _)
ChoiceTuples(pt, k) == IF k = 0 THEN { <<>> }
                  ELSE { Append(c, i) : c \in ChoiceTuples(pt, k - 1), i \in 1..Len(pt[k].v) }
\* same text as NewGuess but kept separate on purpose: this is the *meaning* (value appended, or mask
\* applied to the alpha word immediately before it, i.e. to the preceding plain group's value)
NewGuessP(cur, g, i) == IF g.k = "cap" THEN ApplyMask(cur, g.v[i], Len(g.v[i])) ELSE cur \o g.v[i]
RECURSIVE Derive(_, _, _)
Derive(pt, ch, k) == IF k = 0 THEN <<>>
                     ELSE LET cur == Derive(pt, ch, k - 1) IN NewGuessP(cur, pt[k], ch[k])

(* bag of the elements of a sequence, without recursion (long sequences overflow TLC's stack) *)
BagOfSeq(s) == [x \in { s[i] : i \in DOMAIN s } |-> Cardinality({ i \in DOMAIN s : s[i] = x })]
BagOfChoiceTuples(pt, S) == LET RECURSIVE B(_)
                           B(T) == IF T = {} THEN EmptyBag
                                   ELSE LET c == CHOOSE c \in T : TRUE IN
                                        SetToBag({Derive(pt, c, Len(pt))}) (+) B(T \ {c})
                       IN B(S)
Expected(pt) == IF pt[1].k = "markov" THEN BagOfSeq(pt[1].v)
                ELSE BagOfChoiceTuples(pt, ChoiceTuples(pt, Len(pt)))

C04_ProductOK(pt) == LET r == CreateGuesses(pt, NoLimit) IN
                        /\ BagOfSeq(r.lines) = Expected(pt)
                        /\ r.n = Len(r.lines)

Min2(a, b) == IF a < b THEN a ELSE b
=============================================================================
