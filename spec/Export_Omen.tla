----------------------------- MODULE Export_Omen -----------------------------
EXTENDS MC_Omen
ToPairs(f) == SetToSeq({ <<k, f[k]>> : k \in DOMAIN f })
ASSUME JsonSerialize(IOEnv.OUT_FILE, SetToSeq({ [n |-> m.n, ln |-> m.ln, ip |-> ToPairs(m.ip), cp |-> ToPairs(m.cp)] : m \in MCModels }))
ESpec == (M = 0 /\ lv = 0) /\ [][FALSE]_vars
=============================================================================
