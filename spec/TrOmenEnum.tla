----------------------------- MODULE TrOmenEnum -----------------------------
(***************************************************************************)
(* I-layer conformance for C10 / C15: the real MarkovCracker is stepped    *)
(* one next_guess() at a time and after every call its observable internal *)
(* state - the guess, the parse tree, both cursors and the whole shared    *)
(* Optimizer memo - must equal the state of OmenEnum.tla after the same    *)
(* action.  The ordered model (lists in file order) is data in the trace.  *)
(* A rejection is implementation drift, never a verdict.                   *)
(*  T.om = [n, lnl, ipl: Seq indexed by level+1 of Seq, cpl: Seq of        *)
(*          <<prefix, Seq of <<level, Seq(char)>>>>]                       *)
(*  T.rounds[r] = [level, steps: Seq([g, pt, len, ip]), memo at the end]   *)
(***************************************************************************)
EXTENDS OmenEnum, TLCExt, Json, IOUtils

Traces == TLCEval(ndJsonDeserialize(IOEnv.TRACE_FILE))
NT == Len(Traces)
VARIABLES tid, r, l, st, memo, om     \* om: the ordered model, built once per trace
tvars == <<tid, r, l, st, memo, om>>
T == Traces[tid]

FnOfPairs(ps) == [k \in { ps[i][1] : i \in DOMAIN ps } |-> ps[CHOOSE i \in DOMAIN ps : ps[i][1] = k][2]]
OMof(t) == [n |-> t.om.n,
            lnl |-> [lv \in 0..MaxLevel |-> t.om.lnl[lv + 1]],
            ipl |-> [lv \in 0..MaxLevel |-> t.om.ipl[lv + 1]],
            cpl |-> [p \in { t.om.cpl[i][1] : i \in DOMAIN t.om.cpl } |->
                       FnOfPairs(t.om.cpl[CHOOSE i \in DOMAIN t.om.cpl : t.om.cpl[i][1] = p][2])]]
OM == om
Round == T.rounds[r]
MemoOf(ms) == [k \in { <<ms[i][1], ms[i][2], ms[i][3]>> : i \in DOMAIN ms } |->
                 ms[CHOOSE i \in DOMAIN ms : <<ms[i][1], ms[i][2], ms[i][3]>> = k][4]]

TInit == /\ tid \in 1..NT /\ r = 1 /\ l = 1
         /\ memo = [k \in {} |-> <<>>]
         /\ om = OMof(Traces[tid])
         /\ st = MCInit(OMof(Traces[tid]), Traces[tid].rounds[1].level, TRUE)

Same(res, rec) == /\ res.g = rec.g
                  /\ (rec.g # <<>> => /\ res.mc.gs.pt = rec.pt
                                      /\ res.mc.len = rec.len /\ res.mc.ip = rec.ip)
                  /\ (rec.g = <<>> => res.memo = MemoOf(Round.memo))     \* the whole shared memo, at the end of the level

Step == /\ r <= Len(T.rounds) /\ l <= Len(Round.steps) /\ ~st.raised
        /\ LET res == MCNext(OM, st, memo) IN
             /\ (Same(res, Round.steps[l]) = TRUE)
             /\ memo' = res.memo /\ st' = [st EXCEPT !.mc = res.mc]
        /\ l' = l + 1 /\ UNCHANGED <<tid, r, om>>
NextRound == /\ r < Len(T.rounds) /\ l = Len(Round.steps) + 1
             /\ r' = r + 1 /\ l' = 1 /\ st' = MCInit(OM, T.rounds[r + 1].level, TRUE)
             /\ UNCHANGED <<tid, memo, om>>
TNext == Step \/ NextRound
TSpec == TInit /\ [][TNext]_tvars

Accepted == r = Len(T.rounds) /\ l = Len(Round.steps) + 1
StuckHere == /\ r <= Len(T.rounds) /\ l <= Len(Round.steps)
             /\ (st.raised \/ (Same(MCNext(OM, st, memo), Round.steps[l]) = FALSE))
Report == /\ (Accepted => PrintT(<<"ACCEPT", T.tid>>))
          /\ (StuckHere => PrintT(<<"STUCK", T.tid, r, l>>))
=============================================================================
