------------------------------ MODULE TrCompose ------------------------------
(***************************************************************************)
(* Trace specification for Compose.tla: one trace = one training list of   *)
(* the model-checked space run through the REAL trainer (coverage 1), the  *)
(* REAL guesser (run to exhaustion) and the REAL scorer (every candidate). *)
(*   T.list     the training passwords (sequences of 1-character strings)  *)
(*   T.tables   the trainer's counters  [tab, n, v, c]                     *)
(*   T.bases    its base-structure counter  [s (sequence of <<kind, n>>), c]*)
(*   T.lang     every guess of the real guesser with the probability of    *)
(*              its pre-terminal as an exact rational over T.den           *)
(*   T.scores   every candidate with the real scorer's probability         *)
(* I_ clauses: the real tools are the model (drift); C03_ / C13_ clauses:  *)
(* the properties on the real observations.                                *)
(***************************************************************************)
EXTENDS Compose, TLCExt, Json, IOUtils

Traces == TLCEval(ndJsonDeserialize(IOEnv.TRACE_FILE))
NT == Len(Traces)
VARIABLE tid
tvars == <<vars, tid>>
T == Traces[tid]
TInit == tid \in 1..NT /\ list = Traces[tid].list /\ items = AllItems(Traces[tid].list) /\ cand = <<>>
TSpec == TInit /\ [][UNCHANGED tvars]_tvars

ModelLang == UNION { { <<Spell(b, d), DProb(list, items, b, d)>> : d \in Derivs(items, b) } : b \in Bases(list) }
RealLang == { <<T.lang[i].g, T.lang[i].p>> : i \in DOMAIN T.lang }
SameEntry(x, y) == x[1] = y[1] /\ Eq(x[2], y[2])

NClauses == 8
ClauseName(k) == <<"I_tables_as_model", "I_base_structures_as_model", "I_language_as_model", "I_scores_as_model",
                   "C03_every_training_password_generated", "C03_probabilities_sum_to_one",
                   "C13_nonzero_score_is_a_guess_of_that_probability", "C13_run_does_not_raise">>[k]
ClauseHolds(k) ==
  CASE k = 1 -> /\ \A i \in DOMAIN T.tables : Count(items, <<T.tables[i].tab, T.tables[i].n, T.tables[i].v>>) = T.tables[i].c
                /\ Cardinality({ items[j] : j \in DOMAIN items }) = Len(T.tables)
    [] k = 2 -> /\ \A i \in DOMAIN T.bases : T.bases[i].s \in Bases(list) /\ PBase(list, T.bases[i].s)[1] = T.bases[i].c
                /\ Cardinality(Bases(list)) = Len(T.bases)
    [] k = 3 -> LET ml == ModelLang IN
                /\ \A x \in RealLang : \E y \in ml : SameEntry(x, y)
                /\ \A y \in ml : \E x \in RealLang : SameEntry(x, y)
                /\ Len(T.lang) = Cardinality(ml)
    [] k = 4 -> \A i \in DOMAIN T.scores : Eq(T.scores[i].p, Score(list, items, T.scores[i].s))
    [] k = 5 -> \A j \in DOMAIN list : \E i \in DOMAIN T.lang : T.lang[i].g = list[j]
    [] k = 6 -> FoldSet(LAMBDA i, acc : acc + T.lang[i].p[1], 0, DOMAIN T.lang) = T.den /\ \A i \in DOMAIN T.lang : T.lang[i].p[2] = T.den
    [] k = 7 -> \A i \in DOMAIN T.scores : T.scores[i].p[1] # 0 =>
                   \E j \in DOMAIN T.lang : T.lang[j].g = T.scores[i].s /\ Eq(T.lang[j].p, T.scores[i].p)
    [] k = 8 -> ~T.raised

Failing == SelectSeq([k \in 1..NClauses |-> IF ClauseHolds(k) = TRUE THEN "" ELSE ClauseName(k)], LAMBDA x : x # "")
Report == IF Failing = <<>> THEN PrintT(<<"ACCEPT", T.tid>>) ELSE PrintT(<<"STUCK", T.tid, Failing>>)
=============================================================================
