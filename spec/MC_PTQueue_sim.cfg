SPECIFICATION Spec
CONSTANTS
  NTypes = 3
  MaxGroups = 3
  MaxW = 4
  MaxLen = 4
  MaxStructs = 2
  MaxBW = 2
  MaxCycles = 3
  StrictParent = FALSE
  Grammars <- MCGrammars
INVARIANT OrderOK
INVARIANT NoDupFresh
INVARIANT RepeatsOnlyTies
INVARIANT NothingLost
CHECK_DEADLOCK FALSE
