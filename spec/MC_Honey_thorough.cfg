SPECIFICATION Spec
CONSTANTS
  D = 16
  R = 64
  MaxEntries = 3
  MaxN = 3
  Lists <- MCLists
INVARIANT WalkIsOwner
INVARIANT MeasureExact
INVARIANT FoldIsLoop
CHECK_DEADLOCK FALSE
