SPECIFICATION FairSpec
CONSTANTS
  PT <- PT_A
  Scripts <- MCScripts
  MaxSess = 2
  FixChk = TRUE
  FixStale = TRUE
  FixLast = TRUE
PROPERTY EverySessionEnds
PROPERTY QuitTakesEffect
PROPERTY TypedQuitIsSeen
CHECK_DEADLOCK FALSE
