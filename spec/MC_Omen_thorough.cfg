SPECIFICATION Spec
CONSTANTS
  NA = 2
  NG = 2
  MaxLen = 3
  Levels = {0, 1, 2}
  MaxLv = 6
  FixKeyLen = TRUE
  FixKeyZero = TRUE
INVARIANT TwoDefinitionsAgree
INVARIANT KeyspaceDPIsKeyspace
INVARIANT KeyspaceExact
INVARIANT ThreeAgree
CHECK_DEADLOCK FALSE
