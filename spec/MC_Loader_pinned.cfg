SPECIFICATION Spec
CONSTANTS
  D = 8
  MaxLines = 3
  FixSeek = FALSE
  FixMSkip = FALSE
  Files <- MCFiles
INVARIANT PureRestriction
CHECK_DEADLOCK FALSE
