------------------------------- MODULE TrOmen -------------------------------
(***************************************************************************)
(* P-layer trace specification for C10 / C11 / C18 (and the generator part *)
(* of C15).  The OMEN model is data in the trace, read from the rule files *)
(* by the harness's own neutral reader (or exported from the trainer's     *)
(* memory for C11): T.m = [n, ln, ip: Seq(<<key, level>>), cp: likewise].  *)
(*  kind "level"    strings the real generator emitted for T.level until   *)
(*                  it reported exhaustion (T.done) under some cache       *)
(*                  history                                                *)
(*  kind "raises"   the generator raised instead of enumerating            *)
(*  kind "agree"    T.cands[i] = [s, tr, sc, gu]: levels reported by       *)
(*                  trainer, scorer, guesser (-1 = cannot be generated)    *)
(*  kind "keyspace" T.rows[i] = [level, saved keyspace, generator count,   *)
(*                  numeric flag for the saved probability]                *)
(*  kind "tables"   the trainer's in-memory n-gram tables against the      *)
(*                  tallies of the passwords its second pass saw:          *)
(*                  T.pws (ids), T.alpha (alphabet ids), T.n, T.maxlen,    *)
(*                  T.ipc / T.epc = Seq(<<(n-1)-gram, count>>),            *)
(*                  T.cpc = Seq(<<n-gram, count>>), T.lnc = counts by      *)
(*                  length (index = length)                                *)
(*                  T.cptot = Seq(<<(n-1)-gram, cp_count>>) (the trainer's *)
(*                  per-context totals); the levels in T.m must be the     *)
(*                  smoothed counts (Smoothing.tla)                        *)
(*  kind "smooth"   T.rows[i] = <<count, total, adjust, level>>: the real  *)
(*                  _calc_level on MC_Smoothing's space                    *)
(*  kind "resume"   T.full = uninterrupted sequence, T.j = cut,            *)
(*                  T.rest = what the resumed generator emitted            *)
(***************************************************************************)
EXTENDS Omen, Smoothing, TLCExt, Json, IOUtils, SequencesExt

Traces == TLCEval(ndJsonDeserialize(IOEnv.TRACE_FILE))
NT == Len(Traces)
VARIABLES tid, l
tvars == <<tid, l>>
T == Traces[tid]

FnOf(pairs) == [k \in { pairs[i][1] : i \in DOMAIN pairs } |->
                  (LET i == CHOOSE i \in DOMAIN pairs : pairs[i][1] = k IN pairs[i][2])]
Mod == [n |-> T.m.n, ln |-> T.m.ln, ip |-> FnOf(T.m.ip), cp |-> FnOf(T.m.cp)]
Lv(x) == IF x = NoLevel THEN -1 ELSE x

(* ---- n-gram tallies (AlphabetLookup.parse) ---- *)
ValidPw(i) == Len(T.pws[i]) >= T.n /\ Len(T.pws[i]) <= T.maxlen
InAlpha(sq) == \A k \in DOMAIN sq : \E a \in DOMAIN T.alpha : T.alpha[a] = sq[k]
Valid == { i \in DOMAIN T.pws : ValidPw(i) }
IpTally(k) == Cardinality({ i \in Valid : SubSeq(T.pws[i], 1, T.n - 1) = k })
EpTally(k) == Cardinality({ i \in Valid : SubSeq(T.pws[i], Len(T.pws[i]) - T.n + 2, Len(T.pws[i])) = k })
CpTally(c) == Cardinality({ <<i, p>> \in Valid \X (1..T.maxlen) : p + T.n - 1 <= Len(T.pws[i]) /\ SubSeq(T.pws[i], p, p + T.n - 1) = c })
LnTally(L) == Cardinality({ i \in Valid : Len(T.pws[i]) = L })
Listed(tab, k) == \E r \in DOMAIN tab : tab[r][1] = k
(* ---- alphabet (AlphabetGenerator, first pass): the asz most frequent characters of the passwords of at least n      ---- *)
(* ---- characters; sorted(..., reverse=True) is stable, so ties keep the order in which the characters were first seen ---- *)
AlphaStream == FlattenSeq(SelectSeq(T.pws, LAMBDA p : Len(p) >= T.n))
ExpectedAlphabet ==
   LET st == AlphaStream
       chars == { st[j] : j \in DOMAIN st }
       tl == [c \in chars |-> Cardinality({ j \in DOMAIN st : st[j] = c })]
       fp == [c \in chars |-> CHOOSE j \in DOMAIN st : st[j] = c /\ \A i \in 1..(j - 1) : st[i] # c]
       srt == SetToSortSeq(chars, LAMBDA a, b : tl[a] > tl[b] \/ (tl[a] = tl[b] /\ fp[a] < fp[b]))
   IN SubSeq(srt, 1, IF T.asz < Len(srt) THEN T.asz ELSE Len(srt))
NClauses == CASE T.kind = "level" -> 4 [] T.kind = "tables" -> 6 [] T.kind = "agree" -> 4 [] T.kind = "keyspace" -> 3
              [] T.kind = "resume" -> 1 [] T.kind = "smooth" -> 1 [] OTHER -> 1
RECURSIVE SumCounts(_, _)
SumCounts(tab, i) == IF i > Len(tab) THEN 0 ELSE tab[i][2] + SumCounts(tab, i + 1)
RECURSIVE SumSeq(_, _)
SumSeq(sq, i) == IF i > Len(sq) THEN 0 ELSE sq[i] + SumSeq(sq, i + 1)
(* the levels the trainer keeps (T.m) are the smoothed counts: initial n-grams against their sum (adjust 250), every         *)
(* transition against its context's total (adjust 2), lengths against the number of passwords (adjust 1; level 10 when none) *)
SmoothedLevels ==
   LET M == Mod
       ipTotal == SumCounts(T.ipc, 1)
       lnTotal == SumSeq(T.lnc, 1)
       cpTot == FnOf(T.cptot)
   IN /\ \A r \in DOMAIN T.ipc : M.ip[T.ipc[r][1]] \in Admissible(T.ipc[r][2], ipTotal, 250)
      /\ \A r \in DOMAIN T.cpc : LET c == T.cpc[r][1] IN M.cp[c] \in Admissible(T.cpc[r][2], cpTot[SubSeq(c, 1, Len(c) - 1)], 2)
      /\ \A L \in DOMAIN T.lnc : IF lnTotal = 0 THEN M.ln[L] = MaxLevel ELSE M.ln[L] \in Admissible(T.lnc[L], lnTotal, 1)
ClauseName(k) ==
  CASE T.kind = "level"    -> <<"C10_reports_exhaustion", "C10_each_string_once", "C10_only_strings_of_the_level", "C10_none_missing">>[k]
    [] T.kind = "agree"    -> <<"C11_trainer_level", "C11_scorer_level", "C11_guesser_level", "C11_passwords_per_level">>[k]
    [] T.kind = "keyspace" -> <<"C18_keyspace_is_level_size", "C18_generator_emits_that_many", "C18_saved_probability">>[k]
    [] T.kind = "tables"   -> <<"C11_initial_ngram_counts_are_tallies", "C11_transition_counts_are_tallies", "C11_end_ngram_counts_are_tallies", "C11_length_counts_are_tallies",
                                  "I_alphabet_is_the_most_frequent_characters", "I_levels_are_the_smoothed_counts">>[k]
    [] T.kind = "smooth"   -> <<"I_calc_level_is_the_smoothing_formula">>[k]
    [] T.kind = "resume"   -> <<"C15_resumes_at_next_guess">>[k]
    [] OTHER               -> <<"C10_generator_raised">>[k]
ClauseHolds(k) ==
  CASE T.kind = "level" /\ k = 1 -> T.done
    [] T.kind = "level" /\ k = 2 -> Cardinality(ToSet(T.ev)) = Len(T.ev)
    [] T.kind = "level" /\ k = 3 -> LET M == Mod IN \A i \in DOMAIN T.ev : Level(M, T.ev[i]) = T.level
    [] T.kind = "level" /\ k = 4 -> ToSet(T.ev) = LevelSet(Mod, T.level)
    [] T.kind = "agree" /\ k = 1 -> LET M == Mod IN \A i \in DOMAIN T.cands : Lv(Level(M, T.cands[i][1])) = T.cands[i][2]
    [] T.kind = "agree" /\ k = 2 -> LET M == Mod IN \A i \in DOMAIN T.cands : Lv(Level(M, T.cands[i][1])) = T.cands[i][3]
    [] T.kind = "agree" /\ k = 3 -> LET M == Mod IN \A i \in DOMAIN T.cands :
                                       IF T.cands[i][4] = -3    \* not emitted at any fully drained level 0..T.lmax
                                         THEN Level(M, T.cands[i][1]) > T.lmax
                                         ELSE Lv(Level(M, T.cands[i][1])) = T.cands[i][4]
    [] T.kind = "agree" /\ k = 4 -> LET M == Mod IN \A r \in DOMAIN T.pwcounts :
                                       T.pwcounts[r][2] = Cardinality({ i \in DOMAIN T.train : Lv(Level(M, T.train[i])) = T.pwcounts[r][1] })
    [] T.kind = "keyspace" /\ k = 1 -> T.rows = <<>> \/
                                          LET M == Mod                       \* KeyspaceDP = Keyspace: MC_Omen, KeyspaceDPIsKeyspace
                                              mx == CHOOSE m \in { T.rows[i][1] : i \in DOMAIN T.rows } : \A i \in DOMAIN T.rows : T.rows[i][1] <= m
                                              ly == Layers(M, mx)
                                          IN \A i \in DOMAIN T.rows : T.rows[i][2] = KeyspaceFrom(M, ly, T.rows[i][1])
    [] T.kind = "keyspace" /\ k = 2 -> \A i \in DOMAIN T.rows : T.rows[i][3] = -1 \/ T.rows[i][3] = T.rows[i][2]
    [] T.kind = "keyspace" /\ k = 3 -> \A i \in DOMAIN T.rows : T.rows[i][4] = 1
    [] T.kind = "tables" /\ k = 1 -> /\ \A r \in DOMAIN T.ipc : T.ipc[r][2] = IpTally(T.ipc[r][1])
                                     /\ \A i \in Valid : InAlpha(SubSeq(T.pws[i], 1, T.n - 1)) => Listed(T.ipc, SubSeq(T.pws[i], 1, T.n - 1))
    [] T.kind = "tables" /\ k = 2 -> /\ \A r \in DOMAIN T.cpc : T.cpc[r][2] = CpTally(T.cpc[r][1])
                                     /\ \A i \in Valid : \A p \in 1..(Len(T.pws[i]) - T.n + 1) :
                                           InAlpha(SubSeq(T.pws[i], p, p + T.n - 1)) => Listed(T.cpc, SubSeq(T.pws[i], p, p + T.n - 1))
    [] T.kind = "tables" /\ k = 3 -> \A r \in DOMAIN T.epc : T.epc[r][2] = EpTally(T.epc[r][1])
    [] T.kind = "tables" /\ k = 4 -> \A L \in DOMAIN T.lnc : T.lnc[L] = LnTally(L)
    [] T.kind = "tables" /\ k = 5 -> T.alpha = ExpectedAlphabet
    [] T.kind = "tables" /\ k = 6 -> SmoothedLevels
    [] T.kind = "smooth" -> \A i \in DOMAIN T.rows : T.rows[i][4] \in Admissible(T.rows[i][1], T.rows[i][2], T.rows[i][3])
    [] T.kind = "resume" -> T.rest = SubSeq(T.full, T.j + 1, Len(T.full))
    [] OTHER -> FALSE

Failing == SelectSeq([k \in 1..NClauses |-> IF ClauseHolds(k) = TRUE THEN "" ELSE ClauseName(k)], LAMBDA x : x # "")
TInit == tid \in 1..NT /\ l = 1
TStep == /\ l = 1 /\ l' = 2 /\ UNCHANGED tid
TSpec == TInit /\ [][TStep]_tvars
Report == l = 1 => IF Failing = <<>> THEN PrintT(<<"ACCEPT", T.tid>>) ELSE PrintT(<<"STUCK", T.tid, Failing>>)
=============================================================================
