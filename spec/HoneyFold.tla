------------------------------ MODULE HoneyFold ------------------------------
(***************************************************************************)
(* The cumulative loop of random_walk restated with folds (no recursion),  *)
(* so that Apalache can reason about it symbolically (HoneyApa.tla).       *)
(* TLC checks on the small space that this restatement IS the loop of      *)
(* HoneyDefs (MC_Honey, invariant FoldIsLoop).                             *)
(***************************************************************************)
EXTENDS Integers, Sequences, Apalache

\* @type: (Seq(Int), Int) => Int;
CumA(m, j) == ApaFoldSeqLeft(LAMBDA acc, x : acc + x, 0, SubSeq(m, 1, j))

\* the loop: state <<cur_prob, chosen (0 = not yet), position>>
\* @type: (Seq(Int), Int, Int, Int) => Int;
WalkA(m, tt, dd, rr) ==
  LET \* @type: (<<Int, Int, Int>>, Int) => <<Int, Int, Int>>;
      step(st, x) == IF st[2] # 0 THEN <<st[1], st[2], st[3] + 1>>
                     ELSE IF (st[1] + x) * rr >= tt * dd THEN <<st[1] + x, st[3], st[3] + 1>>
                     ELSE <<st[1] + x, 0, st[3] + 1>>
      res == ApaFoldSeqLeft(step, <<0, 0, 1>>, m)
  IN IF res[2] = 0 THEN 1 ELSE res[2]
=============================================================================
