---------------------------- MODULE MC_HoneyWalk ----------------------------
EXTENDS HoneyWalk
CONSTANTS MaxEntries, MaxN
Entries == [w : 1..D, n : 1..MaxN]
MCLists == { l \in UNION { [1..k -> Entries] : k \in 1..MaxEntries } :
               /\ Cum(l, Len(l)) = D
               /\ \A j \in 1..(Len(l) - 1) : l[j].w > l[j + 1].w }
MCStructs1 == { <<1>>, <<1, 1>>, <<1, 1, 1>> }
MCStructs2 == { <<1>>, <<1, 1>>, <<1, 2>>, <<1, 2, 1>>, <<2, 1, 1>> }
=============================================================================
