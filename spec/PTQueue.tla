------------------------------ MODULE PTQueue ------------------------------
(***************************************************************************)
(* I-layer model of the guesser's pre-terminal enumeration                 *)
(*   lib_guesser/priority_queue.py   PcfgQueue.__init__ / next / restore   *)
(*   lib_guesser/pcfg_grammar.py     initalize_base_structures,            *)
(*        find_children, _are_you_my_child, _find_prob,                    *)
(*        _recursive_restore_prob_order, is_parent_around                  *)
(*   lib_guesser/cracking_session.py the pop / notice-quit / guess loop    *)
(* and the P-layer properties C01 (order), C02 (exactly once), C08         *)
(* (resume loses nothing, repeats only the tied group) stated on it.       *)
(*                                                                         *)
(* Probabilities are integer weights: P(n) = base weight * product of the  *)
(* chosen group weights.  The grammar is part of the initial state, so one *)
(* TLC run quantifies over every grammar in Grammars.                      *)
(***************************************************************************)
EXTENDS Naturals, Sequences, FiniteSets, Bags, TLC

CONSTANTS Grammars,      \* set of [W |-> Seq(Seq(weight)), S |-> Seq([t |-> Seq(type), b |-> weight])]
          MaxCycles,     \* how many quit/--load cycles are explored
          StrictParent   \* TRUE: is_parent_around compares with "<" (tree before fix F4); FALSE: "<="

VARIABLES G,        \* the grammar of this behaviour
          queue,    \* bag of nodes: the heap (heapq layout abstracted: any maximal element may pop)
          cur,      \* node just popped (pc = "popped"), <<>> otherwise
          pc,       \* "run" | "popped" | "done"
          cycles,   \* quit/resume cycles so far
          saved,    \* max_probability restored into this session (INF in the first session)
          done,     \* nodes guessed in earlier sessions
          emS,      \* bag of nodes guessed in this session
          lastP     \* probability of the last pre-terminal guessed in this session
vars == <<G, queue, cur, pc, cycles, saved, done, emS, lastP>>

INF == 1000000

---------------------------------------------------------------------------
(* nodes and probabilities *)
NStruct == Len(G.S)
Types(s) == G.S[s].t
Root(s) == <<s, [i \in 1..Len(Types(s)) |-> 1]>>
Idx(n) == n[2]
Str(n) == n[1]
Size(n, p) == Len(G.W[Types(Str(n))[p]])            \* number of groups of the variable at position p

RECURSIVE Prod(_, _, _)
Prod(s, idx, k) == IF k = 0 THEN G.S[s].b                                   \* _find_prob: base_prob first,
                   ELSE Prod(s, idx, k - 1) * G.W[Types(s)[k]][idx[k]]       \* then left to right
P(n) == Prod(Str(n), Idx(n), Len(Idx(n)))

RECURSIVE Tuples(_, _)
Tuples(s, k) == IF k = 0 THEN { <<>> }
                ELSE { Append(t, i) : t \in Tuples(s, k - 1), i \in 1..Len(G.W[Types(s)[k]]) }
Nodes == UNION { { <<s, idx>> : idx \in Tuples(s, Len(Types(s))) } : s \in 1..NStruct }

Inc(n, p) == <<Str(n), [Idx(n) EXCEPT ![p] = @ + 1]>>
Dec(n, p) == <<Str(n), [Idx(n) EXCEPT ![p] = @ - 1]>>
HasChild(n, p) == Idx(n)[p] < Size(n, p)                \* find_children: not the last group

(* _are_you_my_child(child, base_prob, parent_pos, parent_prob) *)
MyChild(c, pp, pprob) ==
   \A q \in 1..Len(Idx(c)) :
      (q # pp /\ Idx(c)[q] > 1) =>
          LET np == P(Dec(c, q)) IN ~(np < pprob) /\ ~(np = pprob /\ q < pp)

Children(n) == { Inc(n, p) : p \in { p \in 1..Len(Idx(n)) : HasChild(n, p) /\ MyChild(Inc(n, p), p, P(n)) } }

(* is_parent_around(pt_item, max_prob) *)
ParentAround(n, mx) == \E q \in 1..Len(Idx(n)) :
                          Idx(n)[q] > 1 /\ (IF StrictParent THEN P(Dec(n, q)) < mx ELSE P(Dec(n, q)) <= mx)

(* _recursive_restore_prob_order(pt_item, max_prob, min_prob = 0, save_function, left_index):      *)
(* the bag of nodes handed to save_function                                                        *)
RECURSIVE Rest(_, _, _)
Rest(n, mx, li) ==
   IF P(n) <= mx
     THEN (IF ParentAround(n, mx) THEN EmptyBag ELSE SetToBag({n}))
     ELSE LET ps == { p \in li..Len(Idx(n)) : HasChild(n, p) }
              RECURSIVE Sum(_)
              Sum(S) == IF S = {} THEN EmptyBag
                        ELSE LET p == CHOOSE p \in S : TRUE IN Rest(Inc(n, p), mx, p) (+) Sum(S \ {p})
          IN Sum(ps)

RECURSIVE RestAll(_, _)
RestAll(s, mx) == IF s = 0 THEN EmptyBag ELSE Rest(Root(s), mx, 1) (+) RestAll(s - 1, mx)

InitialQueue == SetToBag({ Root(s) : s \in 1..NStruct })

---------------------------------------------------------------------------
Init == /\ G \in Grammars
        /\ queue = InitialQueue
        /\ cur = <<>> /\ pc = "run" /\ cycles = 0 /\ saved = INF
        /\ done = {} /\ emS = EmptyBag /\ lastP = INF

(* PcfgQueue.next(): heappop, max_probability := popped prob, push the adopted children *)
Pop == /\ pc = "run" /\ queue # EmptyBag
       /\ \E n \in BagToSet(queue) :
             /\ \A m \in BagToSet(queue) : P(m) <= P(n)
             /\ queue' = (queue (-) SetToBag({n})) (+) SetToBag(Children(n))
             /\ cur' = n
       /\ pc' = "popped"
       /\ UNCHANGED <<G, cycles, saved, done, emS, lastP>>

(* the session loop did not see a quit request: the popped pre-terminal is guessed *)
Guess == /\ pc = "popped"
         /\ emS' = emS (+) SetToBag({cur})
         /\ lastP' = P(cur)
         /\ cur' = <<>> /\ pc' = "run"
         /\ UNCHANGED <<G, queue, cycles, saved, done>>

(* the session loop noticed the quit after the pop: max_probability = P(cur) is saved, the popped  *)
(* pre-terminal is NOT guessed, the process ends; --load rebuilds the queue from the saved float.   *)
QuitAndResume ==
         /\ pc = "popped" /\ cycles < MaxCycles
         /\ saved' = P(cur)
         /\ queue' = RestAll(NStruct, P(cur))
         /\ done' = done \cup BagToSet(emS)
         /\ emS' = EmptyBag /\ lastP' = INF
         /\ cur' = <<>> /\ pc' = "run" /\ cycles' = cycles + 1
         /\ UNCHANGED G

Finish == /\ pc = "run" /\ queue = EmptyBag /\ pc' = "done"
          /\ UNCHANGED <<G, queue, cur, cycles, saved, done, emS, lastP>>

Next == Pop \/ Guess \/ QuitAndResume \/ Finish
Spec == Init /\ [][Next]_vars
FairSpec == Spec /\ WF_vars(Pop) /\ WF_vars(Guess) /\ WF_vars(Finish)

---------------------------------------------------------------------------
(* P-layer properties *)
Cnt(b, n) == IF n \in BagToSet(b) THEN b[n] ELSE 0

(* C01: nothing more probable than the last emission (or the saved position) is still to come *)
OrderOK == /\ \A n \in BagToSet(queue) : P(n) <= lastP /\ P(n) <= saved
           /\ pc = "popped" => P(cur) <= lastP /\ P(cur) <= saved
OrderStep == [][lastP' # lastP /\ lastP' # INF => lastP' <= lastP]_vars

(* C02: within the uninterrupted run every pre-terminal at most once, in queue or emitted *)
NoDupFresh == cycles = 0 => \A n \in Nodes :
                 Cnt(queue, n) + Cnt(emS, n) + (IF cur = n THEN 1 ELSE 0) <= 1
(* the reason nothing is lost: an unreached node still has an unpopped ancestor in the queue or is in the queue *)
RECURSIVE Reachable(_)
Reachable(n) == \/ Cnt(queue, n) > 0
                \/ \E q \in 1..Len(Idx(n)) : Idx(n)[q] > 1 /\ Reachable(Dec(n, q))
FrontierFresh == (cycles = 0 /\ pc = "run") =>
                    \A n \in Nodes : Cnt(emS, n) = 0 => Reachable(n)

(* C08: the only repeats are pre-terminals tied with the saved position *)
RepeatsOnlyTies == \A n \in BagToSet(emS) :
                      (Cnt(emS, n) > 1 \/ n \in done) => P(n) = saved
(* C02 + C08: a session that runs to exhaustion has guessed everything not guessed before *)
NothingLost == pc = "done" => \A n \in Nodes : n \in done \/ Cnt(emS, n) > 0

Terminates == <>(pc = "done")
=============================================================================
