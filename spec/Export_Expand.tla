---------------------------- MODULE Export_Expand ----------------------------
(* the group catalogue of MC_Expand as JSON: the harness builds from it a real ruleset whose
   pre-terminals are exactly the PT space TLC quantified over *)
EXTENDS MC_Expand
ASSUME JsonSerialize(IOEnv.OUT_FILE, [A2 |-> SetToSeq(A2), C2 |-> SetToSeq(C2), D1 |-> SetToSeq(D1),
                                       O1 |-> SetToSeq(O1), MaxUnits |-> MaxUnits, NPT |-> Cardinality(PTs)])
ESpec == (R = <<>> /\ N = 0 /\ ri = 0 /\ rlimit = 0 /\ out = <<>> /\ pc = "x") /\ [][FALSE]_vars
=============================================================================
