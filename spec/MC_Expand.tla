----------------------------- MODULE MC_Expand -----------------------------
EXTENDS Expand, Json, IOUtils
CONSTANTS MaxUnits, MaxRun, Rich

\* characters: 1..8 lower-case letters, 9 a letter whose upper-casing has two characters (like U+00DF),
\* 21..29 digits, 31.. symbols; upper-case of letter c is c + 10
MCUp == [c \in 1..9 |-> IF c = 9 THEN <<19, 19>> ELSE <<c + 10>>]

A2 == IF Rich THEN { [k |-> "plain", v |-> <<<<1, 2>>>>], [k |-> "plain", v |-> <<<<1, 2>>, <<3, 9>>>>] }
              ELSE { [k |-> "plain", v |-> <<<<1, 2>>, <<3, 9>>>>] }
C2 == IF Rich THEN { [k |-> "cap", v |-> <<<<"L", "L">>>>], [k |-> "cap", v |-> <<<<"L", "L">>, <<"U", "L">>>>],
                     [k |-> "cap", v |-> <<<<"U", "L">>, <<"L", "U">>, <<"U", "U">>>>] }
              ELSE { [k |-> "cap", v |-> <<<<"L", "L">>, <<"U", "L">>>>],
                     [k |-> "cap", v |-> <<<<"U", "L">>, <<"L", "U">>, <<"U", "U">>>>] }
D1 == { [k |-> "plain", v |-> <<<<21>>>>], [k |-> "plain", v |-> <<<<21>>, <<22>>, <<23>>>>] }
O1 == IF Rich THEN { [k |-> "plain", v |-> <<<<31>>, <<32>>>>] } ELSE {}
Ms == { [k |-> "markov", v |-> <<<<1, 1>>>>], [k |-> "markov", v |-> <<<<1, 1>>, <<1, 2>>, <<2, 1, 1>>>>] }

Units == { <<a, c>> : a \in A2, c \in C2 } \cup { <<d>> : d \in D1 \cup O1 }
RECURSIVE UnitSeqs(_)
UnitSeqs(n) == IF n = 0 THEN { <<>> } ELSE { u \o s : u \in Units, s \in UnitSeqs(n - 1) }
PTs == UNION { UnitSeqs(n) : n \in 1..MaxUnits } \cup { <<m>> : m \in Ms }
MCRuns == UNION { [1..n -> PTs] : n \in 1..MaxRun }
=============================================================================
