SPECIFICATION Spec
CONSTANTS
  PT <- PT_A
  Scripts <- MCScripts
  MaxSess = 3
  FixChk = TRUE
  FixInput = TRUE
  FixStale = TRUE
  FixLast = TRUE
INVARIANT PrefixOK
INVARIANT NoShorten
CHECK_DEADLOCK FALSE
