SPECIFICATION Spec
CONSTANTS
  PT <- PT_A
  Scripts <- MCScripts
  MaxSess = 3
  FixChk = TRUE
  FixStale = TRUE
  FixLast = TRUE
INVARIANT PrefixOK
INVARIANT NoShorten
INVARIANT LegalStop
PROPERTY QuitNotLost
PROPERTY SavedCountIsStream
CHECK_DEADLOCK FALSE
