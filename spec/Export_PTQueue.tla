--------------------------- MODULE Export_PTQueue ---------------------------
(* Writes the grammar space of the model-checking configuration as JSON so the harness can
   instantiate every grammar TLC quantified over as a real ruleset (spec -> code). *)
EXTENDS MC_PTQueue
ASSUME JsonSerialize(IOEnv.OUT_FILE, SetToSeq(MCGrammars))
ESpec == Init /\ [][FALSE]_vars
=============================================================================
