--------------------------- MODULE Export_PTQueue ---------------------------
(* Writes the grammar space of the model-checking configuration as JSON so the harness can
   instantiate every grammar TLC quantified over as a real ruleset (spec -> code). *)
EXTENDS MC_PTQueue
ASSUME JsonSerialize(IOEnv.OUT_FILE, SetToSeq(MCGrammars))
ESpec == (G = 0 /\ queue = 0 /\ cur = 0 /\ pc = 0 /\ cycles = 0 /\ saved = 0 /\ done = 0 /\ emS = 0 /\ lastP = 0) /\ [][FALSE]_vars
=============================================================================
