SPECIFICATION TSpec
CONSTANTS
  MaxPw = 3
  MaxList = 2
  MaxCand = 3
INVARIANT Report
CHECK_DEADLOCK FALSE
