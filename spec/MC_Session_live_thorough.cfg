SPECIFICATION FairSpec
CONSTANTS
  PT <- PT_B
  Scripts <- MCScripts
  MaxSess = 3
  FixChk = TRUE
  FixStale = TRUE
  FixLast = TRUE
PROPERTY EverySessionEnds
PROPERTY QuitTakesEffect
PROPERTY TypedQuitIsSeen
CHECK_DEADLOCK FALSE
