----------------------------- MODULE Sim_Session -----------------------------
(* spec -> code: Session.tla instantiated with the pre-terminal list of a REAL ruleset (PT_FILE) for
   `tlc -simulate`; every behaviour TLC writes is replayed as a gate schedule on the real code
   (harness/simreplay.py) and the real stream / store compared with the behaviour's last state. *)
EXTENDS Session, Json, IOUtils, TLCExt
PTData == TLCEval(JsonDeserialize(IOEnv.PT_FILE))
SimScripts == { <<"block">>, <<"EOF">>, <<"q", "block">>, <<"", "block">>, <<"", "q", "block">>, <<"h", "EOF">>, <<"x", "q", "block">> }
=============================================================================
