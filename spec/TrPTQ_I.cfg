SPECIFICATION TSpec
CONSTANTS
  Grammars = {}
  MaxCycles = 1000
  StrictParent = FALSE
INVARIANT Report
INVARIANT OrderOK
INVARIANT RepeatsOnlyTies
INVARIANT NothingLost
CHECK_DEADLOCK FALSE
