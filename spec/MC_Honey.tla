------------------------------ MODULE MC_Honey ------------------------------
EXTENDS Honey, HoneyFold
CONSTANTS MaxEntries, MaxN
Entries == [w : 1..D, n : 1..MaxN]
MCLists == { l \in UNION { [1..k -> Entries] : k \in 1..MaxEntries } :
               /\ Cum(l, Len(l)) = D
               /\ \A j \in 1..(Len(l) - 1) : l[j].w > l[j + 1].w }      \* groups are sorted, probabilities distinct
(* the fold restatement used by Apalache (HoneyFold / HoneyApa) is the recursive loop of HoneyDefs *)
FoldIsLoop == WalkA([j \in DOMAIN lst |-> Mass(lst[j])], u, D, R) = Walk(lst, u)
=============================================================================
