------------------------------- MODULE Loader -------------------------------
(***************************************************************************)
(* I-layer model of lib_guesser/grammar_io.py _load_base_structures:       *)
(* the --skip_brute pre-scan over Grammar/grammar.txt with a file cursor   *)
(* that is rewound by seek(0), the second loop that starts wherever the    *)
(* cursor is, the division by total_prob, dropping of structures that      *)
(* contain M, and the insertion of C<n> after every A<n>.                  *)
(* P-layer (C14): with skip_brute the loaded list is the default list      *)
(* minus the Markov structure, in the same order, weights rescaled by      *)
(* 1/(1-P(M)) - whether or not the file contains a Markov line.            *)
(* Probabilities are integer weights over the common denominator D;        *)
(* a loaded probability is the pair <<numerator, denominator>>.            *)
(***************************************************************************)
EXTENDS Integers, Sequences, FiniteSets, TLC

CONSTANTS Files,      \* set of files; a file is a Seq of [s |-> Seq(label), w |-> 1..D]
          D,          \* common denominator of the written probabilities
          FixSeek,    \* TRUE: cursor rewound after the pre-scan unconditionally (tree after fix F3a)
          FixMSkip    \* TRUE: M lines skipped before dividing (tree after fix F3c)

VARIABLES file, skip, phase, cursor, total, out, failed
vars == <<file, skip, phase, cursor, total, out, failed>>

IsM(ln) == ln.s = << <<"M", 0>> >>

Init == /\ file \in Files /\ skip \in BOOLEAN
        /\ phase = "open" /\ cursor = 1 /\ total = D /\ out = <<>> /\ failed = FALSE

Open == /\ phase = "open"
        /\ phase' = (IF skip THEN "prescan" ELSE "read")
        /\ UNCHANGED <<file, skip, cursor, total, out, failed>>

(* `for value in file:` of the pre-scan: one physical line per step *)
PreScanLine == /\ phase = "prescan" /\ cursor <= Len(file)
               /\ IF IsM(file[cursor])
                    THEN /\ total' = total - file[cursor].w
                         /\ cursor' = 1                     \* file.seek(0); break
                         /\ phase' = "read"
                    ELSE /\ cursor' = cursor + 1 /\ UNCHANGED <<total, phase>>
               /\ UNCHANGED <<file, skip, out, failed>>

(* the pre-scan ran off the end of the file without finding M *)
PreScanEOF == /\ phase = "prescan" /\ cursor > Len(file)
              /\ cursor' = (IF FixSeek THEN 1 ELSE cursor)   \* pinned tree: the cursor stays at EOF
              /\ phase' = "read"
              /\ UNCHANGED <<file, skip, total, out, failed>>

ReadLine == /\ phase = "read" /\ cursor <= Len(file)
            /\ LET ln == file[cursor] IN
                 IF skip /\ FixMSkip /\ IsM(ln)
                   THEN /\ cursor' = cursor + 1 /\ UNCHANGED <<out, failed, phase>>
                   ELSE IF total = 0
                     THEN /\ failed' = TRUE /\ phase' = "done"        \* ZeroDivisionError -> load fails
                          /\ UNCHANGED <<cursor, out>>
                     ELSE /\ out' = (IF ~skip \/ ~(\E k \in 1..Len(ln.s) : ln.s[k][1] = "M")
                                       THEN Append(out, [s |-> ln.s, p |-> <<ln.w, total>>]) ELSE out)
                          /\ cursor' = cursor + 1 /\ UNCHANGED <<failed, phase>>
            /\ UNCHANGED <<file, skip, total>>

(* insertion of the capitalisation variable after every alpha variable *)
RECURSIVE InsertC(_)
InsertC(s) == IF s = <<>> THEN <<>>
              ELSE IF Head(s)[1] = "A" THEN <<Head(s), <<"C", Head(s)[2]>>>> \o InsertC(Tail(s))
              ELSE <<Head(s)>> \o InsertC(Tail(s))

(* I-layer: the index loop of the code                                                        *)
(*     i = 0                                                                                  *)
(*     while i < len(replacement):                                                            *)
(*         if replacement[i][0] == 'A': replacement.insert(i+1, 'C' + len_str); i += 1        *)
(*         i += 1                                                                             *)
(* the bound is re-read every iteration (the list grows) and the inserted C is stepped over   *)
RECURSIVE InsLoop(_, _)
InsLoop(s, i) == IF i > Len(s) THEN s
                 ELSE IF s[i][1] = "A"
                        THEN InsLoop(SubSeq(s, 1, i) \o << <<"C", s[i][2]>> >> \o SubSeq(s, i + 1, Len(s)), i + 2)
                        ELSE InsLoop(s, i + 1)

ReadEOF == /\ phase = "read" /\ cursor > Len(file)
           /\ out' = [k \in 1..Len(out) |-> [s |-> InsLoop(out[k].s, 1), p |-> out[k].p]]
           /\ phase' = "done"
           /\ UNCHANGED <<file, skip, cursor, total, failed>>

Next == Open \/ PreScanLine \/ PreScanEOF \/ ReadLine \/ ReadEOF
Spec == Init /\ [][Next]_vars

---------------------------------------------------------------------------
(* P-layer *)
MWeight(f) == IF \E k \in 1..Len(f) : IsM(f[k])
                THEN f[CHOOSE k \in 1..Len(f) : IsM(f[k]) /\ \A j \in 1..(k - 1) : ~IsM(f[j])].w ELSE 0
Expected(f, sk) ==
   IF ~sk THEN [k \in 1..Len(f) |-> [s |-> f[k].s, p |-> <<f[k].w, D>>]]
   ELSE LET nm == SelectSeq(f, LAMBDA ln : ~IsM(ln)) IN
        [k \in 1..Len(nm) |-> [s |-> nm[k].s, p |-> <<nm[k].w, D - MWeight(f)>>]]
SameProb(a, b) == a[1] * b[2] = b[1] * a[2]
SameList(x, y) == /\ Len(x) = Len(y)
                  /\ \A k \in 1..Len(x) : x[k].s = InsertC(y[k].s) /\ SameProb(x[k].p, y[k].p)

PureRestriction == phase = "done" => (~failed /\ SameList(out, Expected(file, skip)))
=============================================================================
