SPECIFICATION Spec
CONSTANTS
  NA = 2
  NG = 2
  MaxLen = 3
  Levels = {0, 1}
  MaxLv = 3
  FixFirst = TRUE
  Rounds = 2
INVARIANT NoRaise
INVARIANT EachOnce
INVARIANT OnlyLevel
INVARIANT Exact
CHECK_DEADLOCK FALSE
