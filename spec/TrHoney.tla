------------------------------- MODULE TrHoney -------------------------------
(***************************************************************************)
(* P-layer trace specification for C16.                                    *)
(*  kind "walk"   one real random_walk() with scripted random.random():    *)
(*                T.base = base structure list (entries [w, n = 1]),       *)
(*                T.pos[p] = list of the variable at position p of the     *)
(*                structure that must be chosen, T.draws = the scripted    *)
(*                uniforms as integers over T.R, T.chosen = [s, g1..gk]    *)
(*                what the real walk returned                              *)
(*  kind "word"   one honeyword: groups, scripted in-group choices, line   *)
(*  kind "run"    a whole honeyword / random_walk session: T.n lines       *)
(*                expected (N, or 0 when the ruleset's non-Markov language *)
(*                is empty - HoneySession.tla), lines got, all lines in    *)
(*                the language, two runs equal, the session ended          *)
(***************************************************************************)
EXTENDS Integers, Sequences, FiniteSets, TLC, TLCExt, Json, IOUtils

Traces == TLCEval(ndJsonDeserialize(IOEnv.TRACE_FILE))
NT == Len(Traces)
VARIABLES tid, l
tvars == <<tid, l>>
T == Traces[tid]

Mass(e) == e.w * e.n
RECURSIVE Cum(_, _)
Cum(ls, j) == IF j = 0 THEN 0 ELSE Cum(ls, j - 1) + Mass(ls[j])
(* the entry that owns draw t/R: the j with Cum(j-1)/D < t/R <= Cum(j)/D ; 0 belongs to the first *)
Owner(ls, t) == IF t = 0 \/ \A j \in DOMAIN ls : ~(Cum(ls, j - 1) * T.R < t * T.D /\ t * T.D <= Cum(ls, j) * T.R)
                  THEN 1
                  ELSE CHOOSE j \in DOMAIN ls : Cum(ls, j - 1) * T.R < t * T.D /\ t * T.D <= Cum(ls, j) * T.R

NClauses == CASE T.kind = "walk" -> 2 [] T.kind = "word" -> 1 [] OTHER -> 5
ClauseName(k) ==
  CASE T.kind = "walk" -> <<"C16_structure_drawn_with_its_probability", "C16_groups_drawn_with_their_probability">>[k]
    [] T.kind = "word" -> <<"C16_word_is_the_chosen_derivation">>[k]
    [] OTHER           -> <<"C16_exactly_N_words", "C16_words_in_the_language", "C16_random_walk_reproducible", "C16_no_markov_word",
                           "C16_session_ends">>[k]
ClauseHolds(k) ==
  CASE T.kind = "walk" /\ k = 1 -> T.chosen[1] = Owner(T.base, T.draws[1])
    [] T.kind = "walk" /\ k = 2 -> \A p \in DOMAIN T.pos : T.chosen[p + 1] = Owner(T.pos[p], T.draws[p + 1])
    [] T.kind = "word" -> T.line = T.expected
    [] T.kind = "run" /\ k = 1 -> Len(T.lines) = T.n
    [] T.kind = "run" /\ k = 2 -> \A i \in DOMAIN T.lines : T.inlang[i]
    [] T.kind = "run" /\ k = 3 -> T.lines = T.lines2
    [] T.kind = "run" /\ k = 4 -> \A i \in DOMAIN T.lines : ~T.markov[i]
    [] T.kind = "run" /\ k = 5 -> T.ended

Failing == SelectSeq([k \in 1..NClauses |-> IF ClauseHolds(k) = TRUE THEN "" ELSE ClauseName(k)], LAMBDA x : x # "")
TInit == tid \in 1..NT /\ l = 1
TStep == /\ l = 1 /\ l' = 2 /\ UNCHANGED tid
TSpec == TInit /\ [][TStep]_tvars
Report == l = 1 => IF Failing = <<>> THEN PrintT(<<"ACCEPT", T.tid>>) ELSE PrintT(<<"STUCK", T.tid, Failing>>)
=============================================================================
