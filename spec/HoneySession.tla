---------------------------- MODULE HoneySession ----------------------------
(***************************************************************************)
(* lib_guesser/honeyword_session.py  HoneywordSession.run(limit):          *)
(*   loop: seed, random_walk(), create_guesses(pt, is_honeyword) - which   *)
(*   prints one word, or none when the walk picked the Markov structure -  *)
(*   limit -= words printed; stop when limit <= 0; seed += 1               *)
(* A draw is an action Draw(s), one per base structure s of the ruleset;   *)
(* "every structure of positive probability is drawn again and again" is   *)
(* strong fairness of each Draw(s).                                        *)
(* C16: exactly N words for --limit N.  That needs the loop to END, which  *)
(* it does iff some structure is not Markov: a ruleset trained with        *)
(* coverage 0 has the Markov structure only, every walk yields nothing and *)
(* the pinned loop never ends (finding C16-F17).  FixEmpty = TRUE models   *)
(* the repaired tree: the session refuses such a ruleset and returns.      *)
(***************************************************************************)
EXTENDS Integers, FiniteSets

CONSTANTS K,          \* the ruleset has structures 1..K
          MaxN,       \* --limit ranges over 1..MaxN
          FixEmpty    \* TRUE: run() returns at once when every structure is Markov (tree after the fix)

VARIABLES markov,     \* structure -> BOOLEAN (is it the Markov structure); part of the initial state = the ruleset
          n0, limit, produced, pc
vars == <<markov, n0, limit, produced, pc>>

AllMarkov == \A s \in 1..K : markov[s]

Init == /\ markov \in [1..K -> BOOLEAN]
        /\ n0 \in 1..MaxN /\ limit = n0 /\ produced = 0 /\ pc = "start"

Start == /\ pc = "start"
         /\ pc' = (IF FixEmpty /\ AllMarkov THEN "done" ELSE "loop")
         /\ UNCHANGED <<markov, n0, limit, produced>>

Draw(s) == /\ pc = "loop"
           /\ IF markov[s]
                THEN UNCHANGED <<limit, produced, pc>>                 \* 0 words: `limit - 0` is still > 0
                ELSE /\ produced' = produced + 1 /\ limit' = limit - 1
                     /\ pc' = (IF limit - 1 <= 0 THEN "done" ELSE "loop")
           /\ UNCHANGED <<markov, n0>>

Next == Start \/ \E s \in 1..K : Draw(s)
Spec == Init /\ [][Next]_vars /\ WF_vars(Start) /\ \A s \in 1..K : SF_vars(Draw(s) /\ ~markov[s])

Terminates == <>(pc = "done")
ExactlyN == [](pc = "done" => produced = (IF AllMarkov THEN 0 ELSE n0))
NeverMore == [](produced <= n0)
=============================================================================
