SPECIFICATION Spec
CONSTANTS
  MaxBound = 12
  XMin = 2
  XMax = 4
  ExcludeX = FALSE
  Lists <- MCLists
  TSets <- MCTSets
INVARIANT KeptAreWithin
INVARIANT OnlyFailingRemoved
CHECK_DEADLOCK FALSE
