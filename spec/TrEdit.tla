------------------------------- MODULE TrEdit -------------------------------
(***************************************************************************)
(* P-layer trace specification for C20: one real edit_rules.py run.        *)
(*  T.before / T.after : grammar.txt records [s (tokens [c,n]), p (text of *)
(*                       the probability as code points)] in file order    *)
(*  T.mn T.mx T.ts T.rx : the requested filters; T.rx[k] = all requested   *)
(*                       regexes match structure k of `before` (computed   *)
(*                       with Python's re - regex semantics are not TLA+'s)*)
(*  T.xmin T.xmax      : true length range of the ruleset's context values *)
(*  T.glen             : per kept structure, [lo, hi] of the lengths of    *)
(*                       the guesses the real guesser generates for it     *)
(*  T.others_same, T.source_same : digests of every other file / of the    *)
(*                       --copy source, compared in Python                 *)
(***************************************************************************)
EXTENDS Integers, Sequences, FiniteSets, TLC, TLCExt, Json, IOUtils

Traces == TLCEval(ndJsonDeserialize(IOEnv.TRACE_FILE))
NT == Len(Traces)
VARIABLES tid, l
tvars == <<tid, l>>
T == Traces[tid]

IsM(s) == Len(s) = 1 /\ s[1][1] = "M"
RECURSIVE Lo(_), Hi(_), Nominal(_)
Lo(s) == IF s = <<>> THEN 0
         ELSE (CASE Head(s)[1] \in {"A", "D", "O", "K"} -> Head(s)[2] [] Head(s)[1] = "Y" -> 4
                 [] Head(s)[1] = "X" -> T.xmin [] OTHER -> 0) + Lo(Tail(s))
Hi(s) == IF s = <<>> THEN 0
         ELSE (CASE Head(s)[1] \in {"A", "D", "O", "K"} -> Head(s)[2] [] Head(s)[1] = "Y" -> 4
                 [] Head(s)[1] = "X" -> T.xmax [] OTHER -> 0) + Hi(Tail(s))
Nominal(s) == IF s = <<>> THEN 0
         ELSE (CASE Head(s)[1] \in {"A", "D", "O", "K", "X"} -> Head(s)[2] [] Head(s)[1] = "Y" -> 4
                 [] OTHER -> 0) + Nominal(Tail(s))
LengthAsked == T.mn # 0 \/ T.mx # 0
Within(lo, hi) == lo >= T.mn /\ (T.mx = 0 \/ hi <= T.mx)
TSOK(s) == T.ts = <<>> \/ \A k \in 1..Len(s) : \E j \in 1..Len(T.ts) : T.ts[j] = s[k][1]
(* passes every requested filter, judged by the strings the structure stands for *)
Passes(k) == LET s == T.before[k].s IN
                /\ (LengthAsked => (IsM(s) \/ Within(Lo(s), Hi(s))))
                /\ TSOK(s) /\ T.rx[k]
(* fails some requested filter under the most lenient reading (label arithmetic or true lengths) *)
MayFail(k) == LET s == T.before[k].s IN
                 \/ (LengthAsked /\ (~Within(Lo(s), Hi(s)) \/ ~Within(Nominal(s), Nominal(s)) \/ IsM(s)))
                 \/ ~TSOK(s) \/ ~T.rx[k]

(* after is the subsequence of before selected by T.keep (indices into before, increasing) *)
NClauses == 6
ClauseName(k) == <<"C20_survivors_identical_in_order", "C20_only_failing_removed", "C20_kept_pass_the_filter",
                   "C20_guess_lengths_within_bounds", "C20_other_files_untouched", "C20_copy_source_untouched">>[k]
ClauseHolds(k) ==
  CASE k = 1 -> /\ Len(T.keep) = Len(T.after)
                /\ \A j \in 1..Len(T.keep) : T.after[j] = T.before[T.keep[j]]
                /\ \A j \in 1..(Len(T.keep) - 1) : T.keep[j] < T.keep[j + 1]
    [] k = 2 -> \A b \in 1..Len(T.before) : (\A j \in 1..Len(T.keep) : T.keep[j] # b) => MayFail(b)
    [] k = 3 -> \A j \in 1..Len(T.keep) : Passes(T.keep[j])
    [] k = 4 -> \A j \in 1..Len(T.glen) : T.glen[j][1] = 0 \/ Within(T.glen[j][1], T.glen[j][2])
    [] k = 5 -> T.others_same
    [] k = 6 -> T.source_same

(* every clause is evaluated; the verdict names all failing clauses *)
Failing == SelectSeq([k \in 1..NClauses |-> IF ClauseHolds(k) = TRUE THEN "" ELSE ClauseName(k)], LAMBDA x : x # "")
TInit == tid \in 1..NT /\ l = 1
TStep == /\ l = 1 /\ l' = 2 /\ UNCHANGED tid
TSpec == TInit /\ [][TStep]_tvars
Report == l = 1 => IF Failing = <<>> THEN PrintT(<<"ACCEPT", T.tid>>) ELSE PrintT(<<"STUCK", T.tid, Failing>>)
=============================================================================
