------------------------------- MODULE MC_Omen -------------------------------
(***************************************************************************)
(* Model checking of the Omen definitions over all small models:           *)
(*  - the pruned recursion LevelSet equals the declarative LevelSetD        *)
(*  - levels partition the generable strings                               *)
(*  - OmenKeyspace (I-layer transcription of the trainer's                 *)
(*    calc_omen_keyspace / _rec_calc_keyspace) equals Cardinality(LevelSet)*)
(* The model space is also exported (Export_Omen) and every model is       *)
(* written as real IP/CP/LN.level files for the real generator.            *)
(***************************************************************************)
EXTENDS Omen, Json, IOUtils, SequencesExt

CONSTANTS NA,         \* alphabet size
          NG,         \* n-gram size
          MaxLen,     \* LN.level has MaxLen lines
          Levels,     \* levels an entry may have
          MaxLv,      \* LevelSet is checked for 0..MaxLv
          FixKeyLen,  \* TRUE: keyspace counts length = n-gram size (tree after fix F7)
          FixKeyZero  \* TRUE: keyspace admits level - ip_level = 0 (tree after fix F7)

Alpha == 1..NA
Keys(k) == Strings(Alpha, k)
Partial(D, R) == UNION { [S -> R] : S \in SUBSET D }
MCModels == { [n |-> NG, ln |-> l, ip |-> i, cp |-> c] :
                 l \in [1..MaxLen -> Levels], i \in Partial(Keys(NG - 1), Levels) \ { << >> },
                 c \in Partial(Keys(NG), Levels) }

VARIABLES M, lv
vars == <<M, lv>>
Init == M \in MCModels /\ lv = 0
Next == lv < MaxLv /\ lv' = lv + 1 /\ UNCHANGED M
Spec == Init /\ [][Next]_vars

TwoDefinitionsAgree == LevelSet(M, lv) = LevelSetD(M, Alpha, lv)
(* the counting recurrence used in trace validation is the cardinality of the level set *)
KeyspaceDPIsKeyspace == KeyspaceDP(M, lv) = Keyspace(M, lv)

(* ---- I-layer: lib_trainer/omen/evaluate_password.py ---- *)
(* _rec_calc_keyspace(level, length = transitions left, ip) *)
RECURSIVE RecKey(_, _, _)
RecKey(level, length, ip) ==
   LET nxt == { c \in DOMAIN M.cp : SubSeq(c, 1, NG - 1) = ip } IN
   IF length = 1 THEN Cardinality({ c \in nxt : M.cp[c] = level })
   ELSE LET RECURSIVE Sum(_)
            Sum(S) == IF S = {} THEN 0
                      ELSE LET c == CHOOSE c \in S : TRUE IN
                           (IF M.cp[c] <= level THEN RecKey(level - M.cp[c], length - 1, SubSeq(c, 2, NG)) ELSE 0)
                           + Sum(S \ {c})
        IN Sum(nxt)
(* calc_omen_keyspace for one level; the trainer's grammar holds every (n-1)-gram of M.ip *)
CalcKeyspace(level) ==
   LET RECURSIVE SumIP(_)
       SumIP(S) == IF S = {} THEN 0
                   ELSE LET k == CHOOSE k \in S : TRUE
                            lmi == level - M.ip[k]
                            RECURSIVE SumL(_)
                            SumL(L) == IF L > MaxLen THEN 0
                                       ELSE (IF (IF FixKeyLen THEN L < NG ELSE L <= NG) THEN 0
                                             ELSE IF M.ln[L] <= lmi THEN RecKey(lmi - M.ln[L], L - NG + 1, k) ELSE 0)
                                            + SumL(L + 1)
                        IN (IF (IF FixKeyZero THEN lmi >= 0 ELSE lmi > 0) THEN SumL(1) ELSE 0) + SumIP(S \ {k})
   IN SumIP(DOMAIN M.ip)
(* the trainer lists levels 1..18 *)
KeyspaceExact == lv >= 1 => CalcKeyspace(lv) = Keyspace(M, lv)

(* ---- C11, I-layer: the trainer's find_omen_level and the scorer's OmenScorer.parse ---- *)
(* trainer: grammar[context] exists for every context the trainer has seen, and each such entry carries an ip_level; *)
(* a ruleset "written by the trainer" therefore lists every context of a transition in IP.level                     *)
TrainerShaped == \A c \in DOMAIN M.cp : SubSeq(c, 1, NG - 1) \in DOMAIN M.ip
RECURSIVE TrChain(_, _)            \* while end_pos <= pw_len: grammar[chunk[:-1]]['next_letter'][chunk[-1]]  (KeyError -> -1)
TrChain(s, e) == IF e > Len(s) THEN 0
                 ELSE LET c == SubSeq(s, e - NG + 1, e) IN
                      IF SubSeq(c, 1, NG - 1) \notin DOMAIN M.ip \/ c \notin DOMAIN M.cp THEN -1
                      ELSE LET r == TrChain(s, e + 1) IN IF r = -1 THEN -1 ELSE M.cp[c] + r
TrainerLevel(s) == IF Len(s) < NG \/ Len(s) > MaxLen THEN -1               \* min_length = max(1, ngram), max_length
                   ELSE IF SubSeq(s, 1, NG - 1) \notin DOMAIN M.ip THEN -1
                   ELSE LET r == TrChain(s, NG) IN IF r = -1 THEN -1 ELSE M.ln[Len(s)] + M.ip[SubSeq(s, 1, NG - 1)] + r
RECURSIVE ScChain(_, _)            \* self.cp[chunk]
ScChain(s, e) == IF e > Len(s) THEN 0
                 ELSE LET c == SubSeq(s, e - NG + 1, e) IN
                      IF c \notin DOMAIN M.cp THEN -1
                      ELSE LET r == ScChain(s, e + 1) IN IF r = -1 THEN -1 ELSE M.cp[c] + r
ScorerLevel(s) == IF Len(s) < NG \/ Len(s) > MaxLen THEN -1                \* max_len = number of LN lines
                  ELSE IF SubSeq(s, 1, NG - 1) \notin DOMAIN M.ip THEN -1
                  ELSE LET r == ScChain(s, NG) IN IF r = -1 THEN -1 ELSE M.ln[Len(s)] + M.ip[SubSeq(s, 1, NG - 1)] + r
PLevel(s) == IF Level(M, s) = NoLevel THEN -1 ELSE Level(M, s)
(* every string up to one character longer than the longest length, over the alphabet plus one foreign character *)
AgreeStrings == UNION { [1..k -> 0..NA] : k \in 0..(MaxLen + 1) }
ThreeAgree == (lv = 0 /\ TrainerShaped) => \A s \in AgreeStrings : TrainerLevel(s) = PLevel(s) /\ ScorerLevel(s) = PLevel(s)
(* and the generator emits s at exactly that level: s \in LevelSet(M, L) <=> Level(M, s) = L  (TwoDefinitionsAgree) *)
=============================================================================
