----------------------------- MODULE MC_Loader -----------------------------
EXTENDS Loader
CONSTANT MaxLines
\* includes structures with adjacent / repeated alpha variables (multi-words): every A gets its own C
Labels == { << <<"M", 0>> >>, <<<<"A", 1>>>>, <<<<"D", 1>>>>, <<<<"A", 1>>, <<"D", 1>>>>, <<<<"D", 1>>, <<"A", 2>>>>,
            <<<<"A", 1>>, <<"A", 2>>>>, <<<<"A", 1>>, <<"D", 1>>, <<"A", 1>>>>, <<<<"A", 2>>, <<"A", 1>>, <<"A", 1>>>>,
            <<<<"A", 10>>>>, <<<<"A", 12>>, <<"D", 1>>>>, <<<<"A", 101>>>> }    \* multi-digit lengths: the label is read to its end
Ws == {1, 2, 4}
Sum(f) == LET F[k \in 0..Len(f)] == IF k = 0 THEN 0 ELSE F[k - 1] + f[k].w IN F[Len(f)]
\* well-formed: weights sum to at most D, at most one Markov line (the trainer writes one), sorted by weight
MCFiles == { f \in UNION { [1..n -> [s : Labels, w : Ws]] : n \in 1..MaxLines } :
               /\ Sum(f) <= D
               /\ Cardinality({ k \in 1..Len(f) : IsM(f[k]) }) <= 1
               /\ \A k \in 1..(Len(f) - 1) : f[k].w >= f[k + 1].w }
=============================================================================
