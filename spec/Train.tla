-------------------------------- MODULE Train --------------------------------
(***************************************************************************)
(* I-layer model of how the trainer turns tallies into saved lists:        *)
(*   lib_trainer/calculate_probabilities.py  (Counter.most_common() =      *)
(*        stable sort by count, then count / total)                        *)
(*   lib_trainer/run_trainer.py              (Markov pseudo-count for the  *)
(*        coverage option, coverage 0 / 1 special cases)                   *)
(*   lib_trainer/base_structure.py           (e-mail / website structures  *)
(*        only in the raw list)                                            *)
(* and the P-layer of C06.  A tally is a sequence of [v, c] in first-seen  *)
(* order.  Counts are integers; with a fractional coverage the Markov      *)
(* pseudo-count N*(1/cov - 1) is rational, so all counts of the structure  *)
(* list are scaled by the coverage numerator.                              *)
(***************************************************************************)
EXTENDS Integers, Sequences, FiniteSets, TLC, SequencesExt

CONSTANTS Tallies,     \* set of tallies (Seq of [v |-> value, c |-> count >= 1], distinct values)
          Coverages    \* set of <<num, den>> with 0 <= num <= den

(* Counter.most_common(): sort by count descending, ties keep first-seen order (stable) *)
RECURSIVE Insert(_, _)
Insert(sorted, e) == IF sorted = <<>> THEN <<e>>
                     ELSE IF Head(sorted).c >= e.c THEN <<Head(sorted)>> \o Insert(Tail(sorted), e)
                     ELSE <<e>> \o sorted
RECURSIVE MostCommon(_)
MostCommon(t) == IF t = <<>> THEN <<>> ELSE Insert(MostCommon(SubSeq(t, 1, Len(t) - 1)), t[Len(t)])
Total(t) == LET F[i \in 0..Len(t)] == IF i = 0 THEN 0 ELSE F[i - 1] + t[i].c IN F[Len(t)]
(* a saved list: value, probability as <<count, total>> *)
Save(t) == [i \in DOMAIN MostCommon(t) |-> [v |-> MostCommon(t)[i].v, p |-> <<MostCommon(t)[i].c, Total(t)>>]]

(* the structure list: supported structures + the Markov structure with pseudo-count N*(den/num - 1)          *)
(* everything scaled by num so that counts stay integers: c*num for structures, N*(den - num) for "M"          *)
IsUnsupported(v) == v \in {"E", "W"}        \* abstract: a structure is one token; "E"/"W" stand for structures with such a segment
StructTally(t, cov) ==
   LET sup == SelectSeq(t, LAMBDA e : ~IsUnsupported(e.v))
       N == Total(t)                         \* every accepted password contributes one raw structure
   IN IF cov[1] = cov[2] THEN [i \in DOMAIN sup |-> [v |-> sup[i].v, c |-> sup[i].c]]              \* coverage 1: no Markov
      ELSE IF cov[1] = 0 THEN << [v |-> "M", c |-> 1] >>                                             \* coverage 0: only Markov
      ELSE [i \in DOMAIN sup |-> [v |-> sup[i].v, c |-> sup[i].c * cov[1]]] \o << [v |-> "M", c |-> N * (cov[2] - cov[1])] >>

VARIABLES t, cov
vars == <<t, cov>>
Init == t \in Tallies /\ cov \in Coverages
Next == UNCHANGED vars
Spec == Init /\ [][Next]_vars

(* ---- P-layer (C06) ---- *)
RelFreq(list, tally) ==
   /\ Len(list) = Len(tally)
   /\ \A e \in ToSet(tally) : Cardinality({ i \in DOMAIN list : list[i].v = e.v }) = 1          \* every item exactly once
   /\ \A i \in DOMAIN list : \E e \in ToSet(tally) : e.v = list[i].v /\ list[i].p = <<e.c, Total(tally)>>
   /\ \A i \in 1..(Len(list) - 1) : list[i].p[1] >= list[i + 1].p[1]                             \* most to least probable
   /\ Total([i \in DOMAIN list |-> [v |-> list[i].v, c |-> list[i].p[1]]]) = Total(tally)        \* sums to 1
TerminalListOK == RelFreq(Save(t), t)
StructureListOK ==
   LET g == Save(StructTally(t, cov))
       N == Total(t)
       hasM == \E i \in DOMAIN g : g[i].v = "M" IN
   /\ RelFreq(g, StructTally(t, cov))
   /\ \A i \in DOMAIN g : ~IsUnsupported(g[i].v)                         \* e-mail / website structures only in the raw list
   /\ (cov[1] = cov[2]) <=> ~hasM                                        \* absent for coverage 1
   /\ cov[1] = 0 => Len(g) = 1                                           \* the only structure for coverage 0
   /\ (cov[1] # 0 /\ cov[1] # cov[2]) =>                                 \* pseudo-count N*(1/coverage - 1), scaled by num
         \E i \in DOMAIN g : g[i].v = "M" /\ g[i].p[1] * cov[1] = N * (cov[2] - cov[1]) * cov[1]
=============================================================================
