SPECIFICATION TSpec
CONSTANTS
  UpTable <- TrUp
INVARIANT Report
CHECK_DEADLOCK FALSE
