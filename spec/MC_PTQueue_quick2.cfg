SPECIFICATION Spec
CONSTANTS
  NTypes = 2
  MaxGroups = 2
  MaxW = 4
  MaxLen = 3
  MaxStructs = 1
  MaxBW = 1
  MaxCycles = 1
  StrictParent = FALSE
  Grammars <- MCGrammars
INVARIANT OrderOK
INVARIANT NoDupFresh
INVARIANT FrontierFresh
INVARIANT RepeatsOnlyTies
INVARIANT NothingLost
PROPERTY OrderStep
CHECK_DEADLOCK FALSE
