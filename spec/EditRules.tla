------------------------------ MODULE EditRules ------------------------------
(***************************************************************************)
(* I-layer model of edit_rules.py (edit_length / edit_terminal_set /        *)
(* check_regex / rewrite of Grammar/grammar.txt) and the P-layer of C20.   *)
(* A structure is a sequence of tokens [c |-> category, n |-> number];     *)
(* the Markov structure is <<[c |-> "M", n |-> 0]>>.                       *)
(* The tool computes a *nominal* length from the labels (X<n> counts n,    *)
(* Y counts 4); the strings a label stands for have a *true* length range  *)
(* (X1 stands for context strings of XMin..XMax characters).               *)
(***************************************************************************)
EXTENDS Integers, Sequences, FiniteSets, TLC

CONSTANTS Lists,        \* set of base-structure lists (Seq of structures)
          MaxBound,     \* min/max length arguments range over 0..MaxBound (0 = not given)
          TSets,        \* terminal sets explored (the empty set = option not given)
          XMin, XMax,   \* true length range of the strings an X1 label stands for
          ExcludeX      \* TRUE: structures with an X label are outside the checked invariant
                        \*       (open finding C20-F12); FALSE: the invariant covers them

VARIABLES list, mn, mx, ts, out, pc
vars == <<list, mn, mx, ts, out, pc>>

IsM(s) == Len(s) = 1 /\ s[1].c = "M"
HasX(s) == \E k \in 1..Len(s) : s[k].c = "X"

RECURSIVE Nominal(_)
Nominal(s) == IF s = <<>> THEN 0
              ELSE (CASE Head(s).c \in {"A", "D", "O", "K", "X"} -> Head(s).n
                      [] Head(s).c = "Y" -> 4
                      [] OTHER -> 0) + Nominal(Tail(s))

(* edit_length: the three-way keep condition, literally *)
KeepLen(s) == LET t == Nominal(s) IN
                 \/ (t = 0 /\ t <= mx)
                 \/ (t >= mn /\ mx = 0)
                 \/ (t >= mn /\ t <= mx)
KeepTS(s) == \A k \in 1..Len(s) : s[k].c \in ts

Init == /\ list \in Lists /\ mn \in 0..MaxBound /\ mx \in 0..MaxBound /\ ts \in TSets
        /\ out = list /\ pc = "length"

EditLength == /\ pc = "length"
              /\ out' = (IF mn # 0 \/ mx # 0 THEN SelectSeq(out, KeepLen) ELSE out)
              /\ pc' = "tset" /\ UNCHANGED <<list, mn, mx, ts>>
EditTS == /\ pc = "tset"
          /\ out' = (IF ts # {} THEN SelectSeq(out, KeepTS) ELSE out)
          /\ pc' = "done" /\ UNCHANGED <<list, mn, mx, ts>>
Next == EditLength \/ EditTS
Spec == Init /\ [][Next]_vars

---------------------------------------------------------------------------
(* P-layer: true lengths of the guesses a structure produces *)
RECURSIVE Lo(_), Hi(_)
Lo(s) == IF s = <<>> THEN 0
         ELSE (CASE Head(s).c \in {"A", "D", "O", "K"} -> Head(s).n [] Head(s).c = "Y" -> 4
                 [] Head(s).c = "X" -> XMin [] OTHER -> 0) + Lo(Tail(s))
Hi(s) == IF s = <<>> THEN 0
         ELSE (CASE Head(s).c \in {"A", "D", "O", "K"} -> Head(s).n [] Head(s).c = "Y" -> 4
                 [] Head(s).c = "X" -> XMax [] OTHER -> 0) + Hi(Tail(s))
WithinBounds(s) == Lo(s) >= mn /\ (mx = 0 \/ Hi(s) <= mx)
LengthAsked == mn # 0 \/ mx # 0
Passes(s) == /\ (LengthAsked => (IsM(s) \/ WithinBounds(s)))
             /\ (ts # {} => KeepTS(s))
Covered(s) == ~(ExcludeX /\ HasX(s))

(* every kept non-Markov structure only produces guesses within the bounds *)
KeptAreWithin == pc = "done" => \A k \in 1..Len(out) : Covered(out[k]) => Passes(out[k])
(* only structures that fail a requested filter are removed; survivors keep their order *)
OnlyFailingRemoved == pc = "done" =>
      out = SelectSeq(list, LAMBDA s : s \in { out[k] : k \in 1..Len(out) })
      /\ \A k \in 1..Len(list) : (Covered(list[k]) /\ Passes(list[k]) /\ ~IsM(list[k]))
                                    => \E j \in 1..Len(out) : out[j] = list[k]
=============================================================================
