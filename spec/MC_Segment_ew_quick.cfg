SPECIFICATION Spec
CONSTANTS
  Alphabet = {".", "c", "o", "m", "@", "/", "a", "1", "w", "B"}
  MaxLen = 5
INVARIANT Tiling
INVARIANT NoEmpty
INVARIANT AllSound
INVARIANT AllTyped
INVARIANT NoAdjacentSameRun
CHECK_DEADLOCK FALSE
