SPECIFICATION Spec
CONSTANTS
  Alphabet = {"a", "B", "q", "z", "1", "9", "2", "0", "#", "<", "3", "!", " "}
  MaxLen = 4
INVARIANT Tiling
INVARIANT NoEmpty
INVARIANT AllSound
INVARIANT AllTyped
INVARIANT NoAdjacentSameRun
CHECK_DEADLOCK FALSE
