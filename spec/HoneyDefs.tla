------------------------------ MODULE HoneyDefs ------------------------------
(***************************************************************************)
(* Pure operators shared by Honey.tla (one list), HoneyWalk.tla (the whole *)
(* random_walk over a base structure) - parametrised by the denominator d  *)
(* of the probabilities and the resolution r of the draws.                 *)
(***************************************************************************)
EXTENDS Integers, Sequences, FiniteSets

Mass(e) == e.w * e.n
RECURSIVE Cum(_, _)
Cum(l, j) == IF j = 0 THEN 0 ELSE Cum(l, j - 1) + Mass(l[j])

(* the loop of random_walk:  cur_prob += prob * len(values); if cur_prob >= prob_target: pick, break   *)
(* (comparison of cur/d with t/r done in integers); index 1 stays selected if the loop never breaks   *)
RECURSIVE WalkFromDR(_, _, _, _, _, _)
WalkFromDR(l, j, cur, t, d, r) == IF j > Len(l) THEN 1
                                  ELSE IF (cur + Mass(l[j])) * r >= t * d THEN j
                                  ELSE WalkFromDR(l, j + 1, cur + Mass(l[j]), t, d, r)
WalkDR(l, t, d, r) == WalkFromDR(l, 1, 0, t, d, r)

(* P-layer: entry j owns the half-open interval (Cum(j-1)/d, Cum(j)/d]; 0 belongs to the first entry *)
OwnerDR(l, t, d, r) == IF t = 0 THEN 1
                       ELSE CHOOSE j \in 1..Len(l) : Cum(l, j - 1) * r < t * d /\ t * d <= Cum(l, j) * r
WellFormedD(l, d) == Cum(l, Len(l)) = d /\ \A j \in DOMAIN l : l[j].w > 0 /\ l[j].n > 0
=============================================================================
