-------------------------------- MODULE Scorer --------------------------------
(***************************************************************************)
(* I-layer model of the composition C13 speaks about:                      *)
(*   lib_scorer/pcfg_password_scorer.py  parse(): segment the candidate    *)
(*        with the trainer's detectors (alpha runs lower-cased + mask,     *)
(*        digit runs, the rest), multiply the looked-up probabilities      *)
(*        (KeyError -> 0) and the structure's probability                  *)
(*   lib_guesser/pcfg_grammar.py         the guesser's language: structure *)
(*        x word x mask x digits x other, mask applied with upper()        *)
(* over abstract characters with explicit case mappings, including a       *)
(* letter whose case mapping is not invertible (like U+1E9E: lower 'ß',    *)
(* but upper('ß') = 'SS').  P-layer: a non-zero score is the probability   *)
(* of a derivation that spells exactly the candidate.                      *)
(* The ruleset is the "universal" one (every lower-case word, mask, digit  *)
(* and symbol string up to MaxLen is present), so no lookup fails and the  *)
(* score is the product of the segmentation's own factors; the promise is  *)
(* kept iff the derivation with exactly those factors spells the candidate.*)
(***************************************************************************)
EXTENDS Integers, Sequences, FiniteSets, TLC, SequencesExt

CONSTANTS MaxLen,
          ExcludeBadCase   \* TRUE: candidates containing the non-invertible letter are outside the invariant
                           \*       (open finding C13-F15); FALSE: the invariant covers them

(* characters: lower letters "a" "b" "ss"(= ß), upper letters "A" "B" "SS"(= ẞ), digit "1", symbol "!" *)
Lowers == {"a", "b", "ss"}
Uppers == {"A", "B", "SS"}
Chars == Lowers \cup Uppers \cup {"1", "!"}
IsA(c) == c \in Lowers \cup Uppers
IsD(c) == c = "1"
IsU(c) == c \in Uppers
Lower(c) == CASE c = "A" -> "a" [] c = "B" -> "b" [] c = "SS" -> "ss" [] OTHER -> c
(* str.upper() of a lower-case letter: a sequence (upper('ß') is the two letters "SS" -> modelled as <<"S1","S2">>) *)
UpperSeq(c) == CASE c = "a" -> <<"A">> [] c = "b" -> <<"B">> [] c = "ss" -> <<"S1", "S2">> [] OTHER -> <<c>>
BadCase(s) == \E i \in DOMAIN s : s[i] = "SS"

Strings == UNION { [1..n -> Chars] : n \in 1..MaxLen }

(* ---- segmentation: maximal runs of letters / digits / other (no walks, years, context strings on this alphabet) ---- *)
Kind(c) == IF IsA(c) THEN "A" ELSE IF IsD(c) THEN "D" ELSE "O"
RECURSIVE Runs(_)
Runs(t) == IF t = <<>> THEN <<>>
           ELSE LET k == Kind(t[1])
                    n == CHOOSE n \in 1..Len(t) : (\A i \in 1..n : Kind(t[i]) = k) /\ (n = Len(t) \/ Kind(t[n + 1]) # k)
                IN << [t |-> SubSeq(t, 1, n), k |-> k] >> \o Runs(SubSeq(t, n + 1, Len(t)))
LowerStr(t) == [i \in DOMAIN t |-> Lower(t[i])]
MaskOf(t) == [i \in DOMAIN t |-> IF IsU(t[i]) THEN "U" ELSE "L"]
Labels(sl) == [i \in DOMAIN sl |-> <<sl[i].k, Len(sl[i].t)>>]

(* ---- scorer: the factor list it multiplies (a KeyError never happens in the universal ruleset) ---- *)
ScoreFactors(s) == LET sl == Runs(s) IN
   [i \in DOMAIN sl |-> IF sl[i].k = "A" THEN <<"A", LowerStr(sl[i].t), MaskOf(sl[i].t)>> ELSE <<sl[i].k, sl[i].t>>]

(* ---- guesser: the string a derivation with exactly these factors spells (mask applied with upper()) ---- *)
ApplyMask(w, m) == FlattenSeq([i \in DOMAIN w |-> IF m[i] = "U" THEN UpperSeq(w[i]) ELSE <<w[i]>>])
Spell(factors) == FlattenSeq([i \in DOMAIN factors |-> IF factors[i][1] = "A" THEN ApplyMask(factors[i][2], factors[i][3]) ELSE factors[i][2]])
(* upper letters as the guesser writes them: "A" "B", and for ß the two characters S1 S2 (never the single "SS") *)

VARIABLES s
Init == s \in Strings
Next == UNCHANGED s
Spec == Init /\ [][Next]_s

(* C13: the derivation the score was computed from spells the candidate, so the guesser emits it at that probability *)
PromiseKept == (~(ExcludeBadCase /\ BadCase(s))) => Spell(ScoreFactors(s)) = s
(* the segmentation is a tiling and the structure is the one whose probability is multiplied in *)
TilingOK == FlattenSeq([i \in DOMAIN Runs(s) |-> Runs(s)[i].t]) = s
=============================================================================
