-------------------------------- MODULE Omen --------------------------------
(***************************************************************************)
(* P-layer of the OMEN (ordered Markov enumerator) part of the ruleset.    *)
(* A model M is a record                                                   *)
(*    n   n-gram size                                                      *)
(*    ln  Seq of levels, ln[L] = cost of total length L (L = 1..Len(ln))   *)
(*    ip  function: initial (n-1)-gram (Seq of character ids) -> level     *)
(*    cp  function: n-gram (Seq of character ids) -> level of the          *)
(*        transition "last character after the first n-1"                  *)
(* Level(M, s) is the single definition of a string's level that the       *)
(* trainer, the scorer and the guesser must agree on (C11); LevelSet(M, L) *)
(* is what the generator must enumerate exactly (C10); its cardinality is  *)
(* the keyspace the trainer must record (C18).                             *)
(***************************************************************************)
EXTENDS Integers, Sequences, FiniteSets, TLC

NoLevel == 1000          \* "cannot be generated"

RECURSIVE CpSum(_, _, _)
CpSum(M, s, e) == IF e > Len(s) THEN 0
                  ELSE LET c == SubSeq(s, e - M.n + 1, e) IN
                       IF c \notin DOMAIN M.cp THEN NoLevel ELSE M.cp[c] + CpSum(M, s, e + 1)

Level(M, s) == IF Len(s) < M.n \/ Len(s) > Len(M.ln) THEN NoLevel
               ELSE LET k == SubSeq(s, 1, M.n - 1) IN
                    IF k \notin DOMAIN M.ip THEN NoLevel
                    ELSE LET t == M.ln[Len(s)] + M.ip[k] + CpSum(M, s, M.n) IN
                         IF t >= NoLevel THEN NoLevel ELSE t

(* strings of total length L that extend prefix p with transition costs summing to exactly `left`, *)
(* pruned by the cost that is left                                                                 *)
RECURSIVE Ext(_, _, _, _)
Ext(M, p, L, left) ==
   IF Len(p) = L THEN (IF left = 0 THEN {p} ELSE {})
   ELSE LET key == SubSeq(p, Len(p) - M.n + 2, Len(p))
            nxt == { c \in DOMAIN M.cp : SubSeq(c, 1, M.n - 1) = key /\ M.cp[c] <= left }
        IN UNION { Ext(M, Append(p, c[M.n]), L, left - M.cp[c]) : c \in nxt }

LevelSet(M, lv) ==
   UNION { UNION { Ext(M, k, L, lv - M.ln[L] - M.ip[k])
                   : k \in { k \in DOMAIN M.ip : M.ln[L] + M.ip[k] <= lv } }
           : L \in M.n..Len(M.ln) }

Keyspace(M, lv) == Cardinality(LevelSet(M, lv))

(* The same number by dynamic programming, without building the strings (MC_Omen: KeyspaceDPIsKeyspace).  Layers(M, mx)[r + 1] *)
(* maps <<context, left>> to the number of ways to append r characters after the (n-1)-gram `context` with transition      *)
(* costs summing to exactly `left` (0..mx).  Every layer is forced into an explicit function (TLCEval), so the work is      *)
(* |cp| * (mx + 1) per layer instead of one branch per partial string - trace validation of trained models (alphabets of    *)
(* dozens of characters, lengths up to 21) needs this.                                                                       *)
Contexts(M) == DOMAIN M.ip \cup { SubSeq(c, 1, M.n - 1) : c \in DOMAIN M.cp } \cup { SubSeq(c, 2, M.n) : c \in DOMAIN M.cp }
RECURSIVE SumOver(_, _)
(* TLC's integers are 32-bit: the sums saturate at KCap (a cell that does not contribute to the level asked for may hold more *)
(* strings than that); a keyspace below KCap is exact, since each of its summands is at most the keyspace itself               *)
KCap == 1000000000
SumOver(S, f) == IF S = {} THEN 0
                 ELSE LET x == CHOOSE x \in S : TRUE
                          t == f[x] + SumOver(S \ {x}, f) IN IF t > KCap THEN KCap ELSE t
RECURSIVE LayersUpTo(_, _, _, _)
LayersUpTo(M, mx, out, R) ==
   IF R = 0 THEN << TLCEval([kl \in Contexts(M) \X (0..mx) |-> IF kl[2] = 0 THEN 1 ELSE 0]) >>
   ELSE LET below == LayersUpTo(M, mx, out, R - 1)
            prev == below[Len(below)]
            cur == TLCEval([kl \in Contexts(M) \X (0..mx) |->
                      LET ok == { c \in out[kl[1]] : M.cp[c] <= kl[2] } IN
                      SumOver(ok, [c \in ok |-> prev[<<SubSeq(c, 2, M.n), kl[2] - M.cp[c]>>]])])
        IN Append(below, cur)
Layers(M, mx) == LET out == TLCEval([k \in Contexts(M) |-> { c \in DOMAIN M.cp : SubSeq(c, 1, M.n - 1) = k }])
                 IN LayersUpTo(M, mx, out, Len(M.ln) - (M.n - 1))
KeyspaceFrom(M, ly, lv) ==
   LET cells == { <<L, k>> \in (M.n..Len(M.ln)) \X DOMAIN M.ip : M.ln[L] + M.ip[k] <= lv } IN
   SumOver(cells, [x \in cells |-> ly[x[1] - (M.n - 1) + 1][<<x[2], lv - M.ln[x[1]] - M.ip[x[2]]>>]])
KeyspaceDP(M, lv) == KeyspaceFrom(M, Layers(M, lv), lv)

(* declarative definition over an explicit alphabet, used to cross-check the pruned recursion *)
RECURSIVE Strings(_, _)
Strings(A, L) == IF L = 0 THEN { <<>> } ELSE { Append(s, a) : s \in Strings(A, L - 1), a \in A }
LevelSetD(M, A, lv) == { s \in UNION { Strings(A, L) : L \in M.n..Len(M.ln) } : Level(M, s) = lv }
=============================================================================
