-------------------------------- MODULE Omen --------------------------------
(***************************************************************************)
(* P-layer of the OMEN (ordered Markov enumerator) part of the ruleset.    *)
(* A model M is a record                                                   *)
(*    n   n-gram size                                                      *)
(*    ln  Seq of levels, ln[L] = cost of total length L (L = 1..Len(ln))   *)
(*    ip  function: initial (n-1)-gram (Seq of character ids) -> level     *)
(*    cp  function: n-gram (Seq of character ids) -> level of the          *)
(*        transition "last character after the first n-1"                  *)
(* Level(M, s) is the single definition of a string's level that the       *)
(* trainer, the scorer and the guesser must agree on (C11); LevelSet(M, L) *)
(* is what the generator must enumerate exactly (C10); its cardinality is  *)
(* the keyspace the trainer must record (C18).                             *)
(***************************************************************************)
EXTENDS Integers, Sequences, FiniteSets, TLC

NoLevel == 1000          \* "cannot be generated"

RECURSIVE CpSum(_, _, _)
CpSum(M, s, e) == IF e > Len(s) THEN 0
                  ELSE LET c == SubSeq(s, e - M.n + 1, e) IN
                       IF c \notin DOMAIN M.cp THEN NoLevel ELSE M.cp[c] + CpSum(M, s, e + 1)

Level(M, s) == IF Len(s) < M.n \/ Len(s) > Len(M.ln) THEN NoLevel
               ELSE LET k == SubSeq(s, 1, M.n - 1) IN
                    IF k \notin DOMAIN M.ip THEN NoLevel
                    ELSE LET t == M.ln[Len(s)] + M.ip[k] + CpSum(M, s, M.n) IN
                         IF t >= NoLevel THEN NoLevel ELSE t

(* strings of total length L that extend prefix p with transition costs summing to exactly `left`, *)
(* pruned by the cost that is left                                                                 *)
RECURSIVE Ext(_, _, _, _)
Ext(M, p, L, left) ==
   IF Len(p) = L THEN (IF left = 0 THEN {p} ELSE {})
   ELSE LET key == SubSeq(p, Len(p) - M.n + 2, Len(p))
            nxt == { c \in DOMAIN M.cp : SubSeq(c, 1, M.n - 1) = key /\ M.cp[c] <= left }
        IN UNION { Ext(M, Append(p, c[M.n]), L, left - M.cp[c]) : c \in nxt }

LevelSet(M, lv) ==
   UNION { UNION { Ext(M, k, L, lv - M.ln[L] - M.ip[k])
                   : k \in { k \in DOMAIN M.ip : M.ln[L] + M.ip[k] <= lv } }
           : L \in M.n..Len(M.ln) }

Keyspace(M, lv) == Cardinality(LevelSet(M, lv))

(* declarative definition over an explicit alphabet, used to cross-check the pruned recursion *)
RECURSIVE Strings(_, _)
Strings(A, L) == IF L = 0 THEN { <<>> } ELSE { Append(s, a) : s \in Strings(A, L - 1), a \in A }
LevelSetD(M, A, lv) == { s \in UNION { Strings(A, L) : L \in M.n..Len(M.ln) } : Level(M, s) = lv }
=============================================================================
