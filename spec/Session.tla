------------------------------ MODULE Session ------------------------------
(* Prototype I-layer of lib_guesser/cracking_session.py + keypress thread + .sav/.omn persistence.
   Pre-terminal queue abstracted to the (strictly decreasing) list PT; restore = items with rank <= saved. *)
EXTENDS Naturals, Sequences, FiniteSets, TLC, SequencesExt

CONSTANTS PT,            \* sequence of [kind |-> "plain"|"omen", size |-> 1..]
          Scripts,       \* set of keyboard scripts: sequences over {"enter","h","q"} ending in "block" or "eof"
          MaxSess,
          FixChk,        \* TRUE: main loop tests should_exit ; FALSE (pinned): tests thread liveness
          FixInput,      \* TRUE: input() errors end the thread quietly AND liveness is not a command
          FixStale,      \* TRUE: omen_guess_number removed from config after restore_omen
          FixLast        \* TRUE: session saved when the queue empties while omen_exit is set

N == Len(PT)
Rank(i) == N + 1 - i            \* strictly decreasing
INF == N + 1
NoOmen == 0 - 1 + 1             \* placeholder, real absence encoded by sav.hasomen

Expected == LET F[i \in 0..N] == IF i = 0 THEN <<>> ELSE F[i-1] \o [j \in 1..PT[i].size |-> <<i,j>>] IN F[N]

VARIABLES sav, omn,                     \* persistent
          sess, script, spos,           \* environment
          mpc, q, cur, j, sexit, oexit, ognum, cfgomen,   \* main + shared flags; cfgomen: option present in loaded config
          kpc, kline, alive, qseen, placeholder,
          stream
vars == <<sav,omn,sess,script,spos,mpc,q,cur,j,sexit,oexit,ognum,cfgomen,kpc,kline,alive,qseen,placeholder,stream>>

Init == /\ sav = [maxp |-> INF, hasomen |-> FALSE, ognum |-> 0]
        /\ omn = [pt |-> 0, pos |-> 0]
        /\ sess = 1 /\ script \in Scripts /\ spos = 1
        /\ mpc = "start" /\ q = <<>> /\ cur = 0 /\ j = 0 /\ sexit = FALSE /\ oexit = FALSE /\ ognum = 0 /\ cfgomen = FALSE
        /\ kpc = "notstarted" /\ kline = "" /\ alive = FALSE /\ qseen = FALSE /\ placeholder = FALSE
        /\ stream = <<>>

Emit(i,k) == stream' = Append(stream, <<i,k>>)

\* ---------------- main thread ----------------
MStartNew == /\ mpc = "start" /\ sess = 1
             /\ q' = [i \in 1..N |-> i]
             /\ sav' = [maxp |-> INF, hasomen |-> FALSE, ognum |-> 0]      \* initial save
             /\ mpc' = "pop" /\ kpc' = "input" /\ alive' = TRUE
             /\ UNCHANGED <<omn,sess,script,spos,cur,j,sexit,oexit,ognum,cfgomen,kline,qseen,placeholder,stream>>

MStartLoad == /\ mpc = "start" /\ sess > 1
              /\ q' = SelectSeq([i \in 1..N |-> i], LAMBDA i : Rank(i) <= sav.maxp)
              /\ cfgomen' = sav.hasomen
              /\ kpc' = "input" /\ alive' = TRUE
              /\ IF sav.hasomen THEN mpc' = "romen" /\ cur' = omn.pt /\ j' = omn.pos /\ ognum' = sav.ognum /\ placeholder' = TRUE
                                ELSE mpc' = "pop" /\ UNCHANGED <<cur,j,ognum,placeholder>>
              /\ UNCHANGED <<sav,omn,sess,script,spos,sexit,oexit,kline,qseen,stream>>

\* restore_omen / omen_generate_guesses: emit one guess, then look at should_exit
MOmenEmit == /\ mpc \in {"romen","omen"}
             /\ IF j < PT[cur].size
                  THEN /\ Emit(cur, j+1) /\ j' = j + 1 /\ ognum' = ognum + 1
                       /\ mpc' = (IF mpc = "romen" THEN "romenchk" ELSE "omenchk")
                       /\ UNCHANGED cfgomen
                  ELSE /\ mpc' = "pop" /\ UNCHANGED <<stream,j,ognum>>          \* next_guess() returned None
                       /\ cfgomen' = (IF mpc = "romen" /\ FixStale THEN FALSE ELSE cfgomen)
             /\ UNCHANGED <<sav,omn,sess,script,spos,q,cur,sexit,oexit,kpc,kline,alive,qseen,placeholder>>

MOmenChk == /\ mpc \in {"romenchk","omenchk"}
            /\ IF sexit
                 THEN /\ oexit' = TRUE /\ omn' = [pt |-> cur, pos |-> j] /\ mpc' = "pop"
                      /\ cfgomen' = (IF mpc = "romenchk" /\ FixStale THEN FALSE ELSE cfgomen)
                 ELSE /\ mpc' = (IF mpc = "romenchk" THEN "romen" ELSE "omen") /\ UNCHANGED <<oexit,omn,cfgomen>>
            /\ UNCHANGED <<sav,sess,script,spos,q,cur,j,sexit,ognum,kpc,kline,alive,qseen,placeholder,stream>>

SaveRec(mp) == [maxp |-> mp,
                hasomen |-> IF oexit THEN TRUE ELSE cfgomen,
                ognum |-> IF oexit THEN ognum ELSE sav.ognum]

MPop == /\ mpc = "pop"
        /\ IF q = <<>>
             THEN /\ mpc' = "done"
                  /\ sav' = (IF FixLast /\ oexit THEN SaveRec(Rank(cur)) ELSE sav)
                  /\ UNCHANGED <<q,cur>>
             ELSE /\ cur' = Head(q) /\ q' = Tail(q) /\ mpc' = "chk" /\ UNCHANGED sav
        /\ UNCHANGED <<omn,sess,script,spos,j,sexit,oexit,ognum,cfgomen,kpc,kline,alive,qseen,placeholder,stream>>

QuitSeen == IF FixChk THEN sexit ELSE ~alive

MChk == /\ mpc = "chk"
        /\ IF QuitSeen
             THEN /\ sav' = SaveRec(Rank(cur)) /\ mpc' = "done" /\ UNCHANGED <<j,placeholder>>
             ELSE /\ mpc' = (IF PT[cur].kind = "omen" THEN "omen" ELSE "plain")
                  /\ j' = 0 /\ placeholder' = FALSE /\ UNCHANGED sav
        /\ ognum' = (IF ~QuitSeen /\ PT[cur].kind = "omen" THEN 0 ELSE ognum)
        /\ UNCHANGED <<omn,sess,script,spos,q,cur,sexit,oexit,cfgomen,kpc,kline,alive,qseen,stream>>

MPlain == /\ mpc = "plain"
          /\ stream' = stream \o [k \in 1..PT[cur].size |-> <<cur,k>>]
          /\ mpc' = "pop"
          /\ UNCHANGED <<sav,omn,sess,script,spos,q,cur,j,sexit,oexit,ognum,cfgomen,kpc,kline,alive,qseen,placeholder>>

\* ---------------- keyboard thread ----------------
KInput == /\ kpc = "input" /\ mpc # "done"
          /\ LET x == script[spos] IN
               CASE x = "block" -> kpc' = "blocked" /\ UNCHANGED <<alive,kline,spos>>
                 [] x = "eof"   -> /\ kpc' = "dead" /\ UNCHANGED <<kline,spos>>
                                   /\ alive' = FALSE            \* exception (pinned) or quiet return (fixed): thread ends either way
                 [] OTHER       -> kpc' = "sleep" /\ kline' = x /\ spos' = spos + 1 /\ UNCHANGED alive
          /\ UNCHANGED <<sav,omn,sess,script,mpc,q,cur,j,sexit,oexit,ognum,cfgomen,qseen,placeholder,stream>>

KSleep == /\ kpc = "sleep" /\ kpc' = "status"
          /\ UNCHANGED <<sav,omn,sess,script,spos,mpc,q,cur,j,sexit,oexit,ognum,cfgomen,kline,alive,qseen,placeholder,stream>>

\* print_status may raise while the restore placeholder pt_item is installed (IndexError in get_status)
KStatus == /\ kpc = "status"
           /\ \/ /\ placeholder                                  \* raises -> except: return
                 /\ kpc' = "dead" /\ alive' = FALSE /\ UNCHANGED <<sexit,qseen>>
              \/ /\ kline = "q" /\ sexit' = TRUE /\ qseen' = TRUE /\ kpc' = "exiting" /\ UNCHANGED alive
              \/ /\ kline # "q" /\ kpc' = "input" /\ UNCHANGED <<sexit,qseen,alive>>
           /\ UNCHANGED <<sav,omn,sess,script,spos,mpc,q,cur,j,oexit,ognum,cfgomen,kline,placeholder,stream>>

KExit == /\ kpc = "exiting" /\ kpc' = "dead" /\ alive' = FALSE
         /\ UNCHANGED <<sav,omn,sess,script,spos,mpc,q,cur,j,sexit,oexit,ognum,cfgomen,kline,qseen,placeholder,stream>>

\* ---------------- environment: process exits, user runs --load ----------------
Reload == /\ mpc = "done" /\ sess < MaxSess /\ Len(stream) < Len(Expected)
          /\ sess' = sess + 1 /\ script' \in Scripts /\ spos' = 1
          /\ mpc' = "start" /\ q' = <<>> /\ cur' = 0 /\ j' = 0 /\ sexit' = FALSE /\ oexit' = FALSE /\ ognum' = 0 /\ cfgomen' = FALSE
          /\ kpc' = "notstarted" /\ kline' = "" /\ alive' = FALSE /\ qseen' = FALSE /\ placeholder' = FALSE
          /\ UNCHANGED <<sav,omn,stream>>

Next == MStartNew \/ MStartLoad \/ MOmenEmit \/ MOmenChk \/ MPop \/ MChk \/ MPlain
        \/ KInput \/ KSleep \/ KStatus \/ KExit \/ Reload
Spec == Init /\ [][Next]_vars

\* ---------------- properties ----------------
\* C12b / C15: across all sessions the stream follows the expected stream (ranks strictly decreasing, so no
\* tie repeats) - except for the one repeat C08 allows: when the quit fell inside the LAST pre-terminal and it
\* is a Markov level, the saved position is that pre-terminal's own probability, so after its remainder the
\* resumed session replays it (the "tied group"); every further cycle may do so again.
LastLevel == IF PT[N].kind = "omen" THEN [k \in 1..PT[N].size |-> <<N, k>>] ELSE <<>>
RECURSIVE Rep(_)
Rep(k) == IF k = 0 THEN <<>> ELSE LastLevel \o Rep(k - 1)
PrefixOK == IsPrefix(stream, Expected \o Rep(MaxSess))
\* C12a: a session that ends without an explicit quit has emitted everything
NoShorten == (mpc = "done" /\ ~qseen) => IsPrefix(Expected, stream)
=============================================================================
