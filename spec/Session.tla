------------------------------ MODULE Session ------------------------------
(***************************************************************************)
(* I-layer model of one or more guessing sessions:                         *)
(*   lib_guesser/cracking_session.py  CrackingSession.run / _save_session, *)
(*                                    keypress (the keyboard thread)       *)
(*   lib_guesser/pcfg_grammar.py      omen_generate_guesses / restore_omen *)
(*   pcfg_guesser.py                  new session vs --load                *)
(* Two processes, Main and Kbd.  Every program counter value is a *gate*   *)
(* of the conformance harness (harness/gated.py): a thread parked at gate  *)
(* g has pc = g, and one action = running from that gate to the next one,  *)
(* so a recorded gate log is, entry by entry, a behaviour of this module   *)
(* (TrSession_I.tla).  The fixes F2 / F5a / F5b of the repository are      *)
(* switchable (Fix* constants) so that the same model documents the        *)
(* defects of the pinned tree and serves as regression model.              *)
(*                                                                         *)
(* The pre-terminal queue is abstracted to the strictly decreasing list PT *)
(* (pre-terminal i has rank N+1-i; restore = items with rank <= saved);    *)
(* ties and the real restore walk are PTQueue.tla's business.              *)
(***************************************************************************)
EXTENDS Naturals, Sequences, FiniteSets, TLC, SequencesExt

CONSTANTS PT,            \* Seq of [kind |-> "plain" | "omen", size |-> number of guesses]
          Scripts,       \* keyboard scripts: Seq over {"", "h", "q", "x"} ending in "block" or "EOF"
          MaxSess,
          FixChk,        \* TRUE: loop tests should_exit (after F2); FALSE: tests keyboard thread liveness
          FixStale,      \* TRUE: omen_guess_number removed after a completed restore_omen (after F5a)
          FixLast        \* TRUE: session saved when the queue empties while omen_exit is set (after F5b)

N == Len(PT)
Rank(i) == N + 1 - i
INF == N + 1

Expected == LET F[i \in 0..N] == IF i = 0 THEN <<>> ELSE F[i - 1] \o [k \in 1..PT[i].size |-> <<i, k>>] IN F[N]

VARIABLES sav, omn,                                   \* persistent: .sav and .omn files
          sess, script, spos,                          \* process number, keyboard script and position
          mpc, q, cur, j, sexit, oexit, ognum, cfgomen, placeholder, ng, cnt, \* main thread + shared flags; ng = report.num_guesses, cnt = guesses of the running call
          kpc, kline, qseen,                           \* keyboard thread
          stream                                       \* stdout, across all sessions
vars == <<sav, omn, sess, script, spos, mpc, q, cur, j, sexit, oexit, ognum, cfgomen, placeholder, ng, cnt, kpc, kline, qseen, stream>>

MainVars == <<mpc, q, cur, j, oexit, ognum, cfgomen, placeholder, stream, sav, omn>>
KbdVars == <<kpc, kline, qseen, spos>>

Init == /\ sav = [maxp |-> INF, hasomen |-> FALSE, ognum |-> 0, ng |-> 0]
        /\ omn = [pt |-> 0, pos |-> 0]
        /\ sess = 1 /\ script \in Scripts /\ spos = 1
        /\ mpc = "start" /\ q = <<>> /\ cur = 0 /\ j = 0 /\ sexit = FALSE /\ oexit = FALSE /\ ognum = 0
        /\ cfgomen = FALSE /\ placeholder = FALSE /\ ng = 0 /\ cnt = 0
        /\ kpc = "nothread" /\ kline = "" /\ qseen = FALSE
        /\ stream = <<>>

Alive == kpc \notin {"nothread", "dead"}
QuitSeen == IF FixChk THEN sexit ELSE ~Alive

SaveRec(mp) == [maxp |-> mp, ng |-> ng,
                hasomen |-> IF oexit THEN TRUE ELSE cfgomen,
                ognum |-> IF oexit THEN ognum ELSE sav.ognum]

---------------------------------------------------------------------------
(* main thread: one action per gate-to-gate segment *)

(* gate "start": build the queue (new: all pre-terminals; --load: those with rank <= saved) *)
MStart == /\ mpc = "start"
          /\ IF sess = 1
               THEN /\ q' = [i \in 1..N |-> i] /\ mpc' = "save0" /\ UNCHANGED <<cfgomen, kpc>>
               ELSE /\ q' = SelectSeq([i \in 1..N |-> i], LAMBDA i : Rank(i) <= sav.maxp)
                    /\ cfgomen' = sav.hasomen /\ mpc' = "tstart"
                    /\ kpc' = "start"                    \* user_thread.start() happens before the next gate
          /\ ng' = (IF sess = 1 THEN 0 ELSE sav.ng)        \* report.load(save_config)
          /\ UNCHANGED <<sav, omn, sess, script, spos, cur, j, sexit, oexit, ognum, placeholder, kline, qseen, stream, cnt>>

(* gate "save0": the initial save of a new session *)
MSave0 == /\ mpc = "save0"
          /\ sav' = [maxp |-> INF, hasomen |-> FALSE, ognum |-> 0, ng |-> 0]
          /\ mpc' = "tstart" /\ kpc' = "start"           \* ... and then user_thread.start()
          /\ UNCHANGED <<omn, sess, script, spos, q, cur, j, sexit, oexit, ognum, cfgomen, placeholder, kline, qseen, stream, ng, cnt>>

(* gate "tstart": the keyboard thread exists; --load with an interrupted Markov level starts restore_omen *)
(* (if nothing of the level is left, restore_omen returns at once)                                         *)
MThreadStarted ==
          /\ mpc = "tstart"
          /\ cnt' = 0
          /\ IF sess > 1 /\ cfgomen
               THEN /\ cur' = omn.pt /\ j' = omn.pos /\ ognum' = sav.ognum /\ placeholder' = TRUE
                    /\ IF omn.pos < PT[omn.pt].size
                         THEN mpc' = "remit" /\ UNCHANGED cfgomen
                         ELSE mpc' = "pop" /\ cfgomen' = (IF FixStale THEN FALSE ELSE cfgomen)
               ELSE /\ mpc' = "pop" /\ UNCHANGED <<cur, j, ognum, placeholder, cfgomen>>
          /\ UNCHANGED <<sav, omn, sess, script, spos, q, sexit, oexit, kpc, kline, qseen, stream, ng>>

Emit(i, k) == stream' = Append(stream, <<i, k>>)

(* gates "remit" / "oemit": print one Markov guess (restore_omen / omen_generate_guesses) *)
MOmenEmit == /\ mpc \in {"remit", "oemit"}
             /\ Emit(cur, j + 1) /\ j' = j + 1 /\ ognum' = ognum + 1 /\ cnt' = cnt + 1
             /\ mpc' = (IF mpc = "remit" THEN "rchk" ELSE "ochk")
             /\ UNCHANGED <<sav, omn, sess, script, spos, q, cur, sexit, oexit, cfgomen, placeholder, kpc, kline, qseen, ng>>

(* gates "rchk" / "ochk": the should_exit test after every Markov guess *)
MOmenChk == /\ mpc \in {"rchk", "ochk"}
            /\ IF sexit
                 THEN /\ oexit' = TRUE /\ omn' = [pt |-> cur, pos |-> j]
                      /\ mpc' = "pop" /\ ng' = ng + cnt /\ UNCHANGED cfgomen
                 ELSE /\ UNCHANGED <<oexit, omn>>
                      /\ IF j < PT[cur].size
                           THEN mpc' = (IF mpc = "rchk" THEN "remit" ELSE "oemit") /\ UNCHANGED <<cfgomen, ng>>
                           ELSE /\ mpc' = "pop" /\ ng' = ng + cnt       \* next_guess() returned None: level finished
                                /\ cfgomen' = (IF mpc = "rchk" /\ FixStale THEN FALSE ELSE cfgomen)
            /\ UNCHANGED <<sav, sess, script, spos, q, cur, j, sexit, ognum, placeholder, kpc, kline, qseen, stream, cnt>>

(* gate "pop": pqueue.next() *)
MPop == /\ mpc = "pop"
        /\ IF q = <<>>
             THEN /\ mpc' = (IF FixLast /\ oexit THEN "savelast" ELSE "done") /\ UNCHANGED <<q, cur>>
             ELSE /\ cur' = Head(q) /\ q' = Tail(q) /\ mpc' = "chk"
        /\ UNCHANGED <<sav, omn, sess, script, spos, j, sexit, oexit, ognum, cfgomen, placeholder, kpc, kline, qseen, stream, ng, cnt>>

(* gate "chk": the quit test of the loop; then create_guesses starts *)
MChk == /\ mpc = "chk"
        /\ IF QuitSeen
             THEN /\ mpc' = "saveq" /\ UNCHANGED <<j, placeholder, ognum, cnt>>
             ELSE /\ j' = 0 /\ placeholder' = FALSE /\ cnt' = 0
                  /\ ognum' = (IF PT[cur].kind = "omen" THEN 0 ELSE ognum)
                  /\ mpc' = (IF PT[cur].size = 0 THEN "pop" ELSE IF PT[cur].kind = "omen" THEN "oemit" ELSE "emit")
        /\ UNCHANGED <<sav, omn, sess, script, spos, q, cur, sexit, oexit, cfgomen, kpc, kline, qseen, stream, ng>>

(* gate "emit": print one guess of a non-Markov pre-terminal *)
MEmit == /\ mpc = "emit"
         /\ Emit(cur, j + 1) /\ j' = j + 1 /\ cnt' = cnt + 1
         /\ ng' = (IF j + 1 < PT[cur].size THEN ng ELSE ng + cnt + 1)
         /\ mpc' = (IF j + 1 < PT[cur].size THEN "emit" ELSE "pop")
         /\ UNCHANGED <<sav, omn, sess, script, spos, q, cur, sexit, oexit, ognum, cfgomen, placeholder, kpc, kline, qseen>>

(* gates "saveq" / "savelast": _save_session, then the process ends *)
MSave == /\ mpc \in {"saveq", "savelast"}
         /\ sav' = SaveRec(Rank(cur))
         /\ mpc' = "done"
         /\ UNCHANGED <<omn, sess, script, spos, q, cur, j, sexit, oexit, ognum, cfgomen, placeholder, kpc, kline, qseen, stream, ng, cnt>>

---------------------------------------------------------------------------
(* keyboard thread *)
KStart == /\ kpc = "start" /\ mpc # "done" /\ kpc' = "input"
          /\ UNCHANGED <<sav, omn, sess, script, spos, mpc, q, cur, j, sexit, oexit, ognum, cfgomen, placeholder, kline, qseen, stream, ng, cnt>>

(* gate "input": input() returns the next scripted line, raises at EOF, or blocks for ever *)
KInput == /\ kpc = "input" /\ mpc # "done"
          /\ script[spos] # "block"
          /\ IF script[spos] = "EOF"
               THEN /\ kpc' = "dead" /\ UNCHANGED <<kline, spos, qseen>>          \* input() raises: the thread ends
               ELSE /\ kpc' = "sleep" /\ kline' = script[spos] /\ spos' = spos + 1
                    /\ qseen' = (qseen \/ script[spos] = "q")
          /\ UNCHANGED <<sav, omn, sess, script, mpc, q, cur, j, sexit, oexit, ognum, cfgomen, placeholder, stream, ng, cnt>>

KSleep == /\ kpc = "sleep" /\ mpc # "done" /\ kpc' = "status"
          /\ UNCHANGED <<sav, omn, sess, script, spos, mpc, q, cur, j, sexit, oexit, ognum, cfgomen, placeholder, kline, qseen, stream, ng, cnt>>

(* gate "status": print_status; it may raise while the placeholder pre-terminal of restore_omen is installed *)
(* (get_status indexes the Markov groups with the level), which ends the thread silently                   *)
KStatus == /\ kpc = "status" /\ mpc # "done"
           /\ \/ /\ placeholder /\ kpc' = "dead"
              \/ /\ kpc' = (IF kline = "q" THEN "setexit" ELSE "input")
           /\ UNCHANGED <<sav, omn, sess, script, spos, mpc, q, cur, j, sexit, oexit, ognum, cfgomen, placeholder, kline, qseen, stream, ng, cnt>>

(* gate "setexit": pcfg.should_exit = True; return *)
KSetExit == /\ kpc = "setexit" /\ mpc # "done"
            /\ sexit' = TRUE /\ kpc' = "dead"
            /\ UNCHANGED <<sav, omn, sess, script, spos, mpc, q, cur, j, oexit, ognum, cfgomen, placeholder, kline, qseen, stream, ng, cnt>>

---------------------------------------------------------------------------
(* environment: the process has ended; the user runs --load *)
Reload == /\ mpc = "done" /\ sess < MaxSess /\ Len(stream) < Len(Expected)
          /\ sess' = sess + 1 /\ script' \in Scripts /\ spos' = 1
          /\ mpc' = "start" /\ q' = <<>> /\ cur' = 0 /\ j' = 0 /\ sexit' = FALSE /\ oexit' = FALSE /\ ognum' = 0
          /\ cfgomen' = FALSE /\ placeholder' = FALSE /\ ng' = 0 /\ cnt' = 0
          /\ kpc' = "nothread" /\ kline' = "" /\ qseen' = FALSE
          /\ UNCHANGED <<sav, omn, stream>>

MainNext == MStart \/ MSave0 \/ MThreadStarted \/ MOmenEmit \/ MOmenChk \/ MPop \/ MChk \/ MEmit \/ MSave
KbdNext == KStart \/ KInput \/ KSleep \/ KStatus \/ KSetExit
Next == MainNext \/ KbdNext \/ Reload
Spec == Init /\ [][Next]_vars

---------------------------------------------------------------------------
(* properties *)
(* C12b / C15 / C08: across all sessions the stream follows the expected stream - except for the one repeat  *)
(* C08 allows: when the quit fell inside the LAST pre-terminal and it is a Markov level, the saved position  *)
(* is that pre-terminal's own probability, so after its remainder a resumed session replays it (the tied     *)
(* group); every further cycle may do so again.                                                              *)
LastLevel == IF PT[N].kind = "omen" THEN [k \in 1..PT[N].size |-> <<N, k>>] ELSE <<>>
RECURSIVE Rep(_)
Rep(k) == IF k = 0 THEN <<>> ELSE LastLevel \o Rep(k - 1)
PrefixOK == IsPrefix(stream, Expected \o Rep(MaxSess))
(* C12a: a session in which nobody asked to quit writes everything that was left *)
NoShorten == (mpc = "done" /\ ~qseen) => IsPrefix(Expected, stream)
(* C12c: the process only ends early at a pre-terminal boundary or between two Markov guesses *)
LegalStop == mpc = "done" =>
                \/ stream = <<>> \/ Len(stream) >= Len(Expected)
                \/ LET e == stream[Len(stream)] IN e[2] = PT[e[1]].size \/ PT[e[1]].kind = "omen"
(* beyond the listed properties: the guess counter written to the save file is the number of guesses written so far *)
(* (status reports and the resumed session's totals build on it); replays of a tied last level are counted again     *)
SavedCountIsStream == [][(mpc \in {"saveq", "savelast"} /\ mpc' = "done") => sav'.ng = Len(stream)]_vars
(* a quit request, once the flag is set, is not lost: the main thread does not start another pre-terminal *)
QuitNotLost == [][(sexit /\ mpc = "chk") => mpc' = "saveq"]_vars
=============================================================================
