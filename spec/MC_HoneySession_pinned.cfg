SPECIFICATION Spec
CONSTANTS
  K = 3
  MaxN = 3
  FixEmpty = FALSE
PROPERTY Terminates
PROPERTY ExactlyN
PROPERTY NeverMore
CHECK_DEADLOCK FALSE
