------------------------------ MODULE HoneyWalk ------------------------------
(***************************************************************************)
(* I-layer model of the whole PcfgGrammar.random_walk():                   *)
(*   draw 1 selects the base structure (Honey.tla), then the code walks    *)
(*   the replacements of the structure LEFT TO RIGHT; every slot starts as *)
(*   (type, group 0) and slot p is overwritten with the group selected by  *)
(*   its own draw - one action (Slot) per iteration of                     *)
(*       for pointer, item in enumerate(pt_item['pt'])                     *)
(* A structure is a sequence of type ids; the same type may occur several  *)
(* times (D2O1D2, A3D1A3): such slots share one list but have their own    *)
(* draw, and the derivation is the tuple of the owners, position by        *)
(* position.  P-layer (C16): the chance of a derivation is the product of  *)
(* the masses of its groups (MeasureProduct).                              *)
(***************************************************************************)
EXTENDS HoneyDefs, TLC

CONSTANTS Lists, D, R,
          NTypes,      \* type ids 1..NTypes
          Structs      \* set of structures (sequences of type ids)

VARIABLES lists,   \* type id -> list
          struct,  \* the structure draw 1 selected
          draws,   \* slot -> draw
          pc,      \* next slot of the for loop
          pt       \* slot -> selected group (1-based; code: (type, index))
vars == <<lists, struct, draws, pc, pt>>

Init == /\ lists \in [1..NTypes -> Lists]
        /\ struct \in Structs
        /\ draws \in [DOMAIN struct -> 0..(R - 1)]
        /\ pc = 1
        /\ pt = [p \in DOMAIN struct |-> 1]

Slot == /\ pc <= Len(struct)
        /\ pt' = [pt EXCEPT ![pc] = WalkDR(lists[struct[pc]], draws[pc], D, R)]
        /\ pc' = pc + 1
        /\ UNCHANGED <<lists, struct, draws>>
Next == Slot
Spec == Init /\ [][Next]_vars

AllWellFormed == \A t \in 1..NTypes : WellFormedD(lists[t], D)

(* loop invariant: processed slots hold the owner of THEIR draw, the others are still group 1 *)
SlotsAreOwners == AllWellFormed =>
    \A p \in DOMAIN struct : pt[p] = IF p < pc THEN OwnerDR(lists[struct[p]], draws[p], D, R) ELSE 1

(* the derivation as a function of the draws, and its measure on the grid (0,1]^n *)
Final(dr) == [p \in DOMAIN struct |-> WalkDR(lists[struct[p]], dr[p], D, R)]
RECURSIVE Pow(_, _)
Pow(b, e) == IF e = 0 THEN 1 ELSE b * Pow(b, e - 1)
RECURSIVE ProdMass(_, _)
ProdMass(dv, p) == IF p = 0 THEN 1 ELSE ProdMass(dv, p - 1) * Mass(lists[struct[p]][dv[p]])
Derivs == { dv \in [DOMAIN struct -> 1..3] : \A p \in DOMAIN struct : dv[p] <= Len(lists[struct[p]]) }
MeasureProduct ==
    (AllWellFormed /\ pc = 1 /\ \A p \in DOMAIN struct : draws[p] = 0) =>
        \A dv \in Derivs :
            Cardinality({ dr \in [DOMAIN struct -> 1..R] : Final(dr) = dv }) * Pow(D, Len(struct))
                = ProdMass(dv, Len(struct)) * Pow(R, Len(struct))
=============================================================================
