--------------------------- MODULE MC_PTQueue_file ---------------------------
(* PTQueue on ONE larger grammar read from G_FILE (chosen at random by the harness: 3 variable types, structures of
   length up to 4, two structures): exhaustive over every tie choice, cut point and cycle for that grammar. *)
EXTENDS PTQueue, Json, IOUtils, TLCExt
GFile == TLCEval(JsonDeserialize(IOEnv.G_FILE))
FileGrammars == { GFile }
=============================================================================
