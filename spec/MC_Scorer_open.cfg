SPECIFICATION Spec
CONSTANTS
  MaxLen = 4
  ExcludeBadCase = FALSE
INVARIANT PromiseKept
INVARIANT TilingOK
CHECK_DEADLOCK FALSE
