---------------------------- MODULE MC_EditRules ----------------------------
EXTENDS EditRules
Tok(c, n) == [c |-> c, n |-> n]
Catalogue == { <<Tok("M", 0)>>, <<Tok("A", 1)>>, <<Tok("A", 10)>>, <<Tok("A", 2), Tok("D", 2)>>, <<Tok("Y", 1)>>,
               <<Tok("A", 3), Tok("Y", 1)>>, <<Tok("K", 4)>>, <<Tok("A", 8), Tok("X", 1)>>, <<Tok("X", 1)>>,
               <<Tok("D", 3), Tok("O", 1)>>, <<Tok("A", 12)>> }
\* lists without repeated structures (grammar.txt has one line per structure)
MCLists == { l \in UNION { [1..n -> Catalogue] : n \in 1..2 } : \A i, j \in 1..Len(l) : i # j => l[i] # l[j] }
MCTSets == { {}, {"A", "D"}, {"A", "D", "O", "K", "Y", "X"}, {"M", "A"} }
=============================================================================
