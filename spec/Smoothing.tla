------------------------------ MODULE Smoothing ------------------------------
(***************************************************************************)
(* lib_trainer/omen/smoothing.py, _calc_level:                             *)
(*     level = clamp(floor(-ln(count / total * adjust + 1e-11)), 0, 10)    *)
(* with adjust = 250 for initial / end n-grams, 2 for transitions and 1    *)
(* for lengths (smooth_grammar, smooth_length).  In integers:              *)
(*     level >= L  <=>  count * adjust / total + 1e-11 <= e^-L             *)
(*                 <=>  total / (count * adjust) >= e^L (1 + delta),       *)
(* delta = 1e-11 e^L <= 2.3e-7.  e^L is irrational, so a table of          *)
(* floor(Scale[L] e^L) (six significant digits) decides every case except  *)
(* a band of relative width < 1e-5 around each threshold; inside the band  *)
(* both neighbouring levels are admissible (Admissible has then two        *)
(* elements - MC_Smoothing: never for totals up to MaxTotal).              *)
(* A count of 0 gives floor(-ln 1e-11) = 25, clamped to 10.                *)
(* total = 0 is outside the definition (the code divides by it; for the    *)
(* length table smooth_length catches the error and stores level 10).      *)
(***************************************************************************)
EXTENDS Integers, FiniteSets

MaxLevel == 10
Scale == <<100000, 100000, 10000, 10000, 1000, 1000, 100, 100, 100, 100>>
EL == <<271828, 738905, 200855, 545981, 148413, 403428, 109663, 298095, 810308, 2202646>>      \* floor(Scale[L] e^L), L = 1..10
Margin(L) == IF L = 10 THEN 2 ELSE 1               \* ceiling, and the 1e-11 (only visible in the last digit at L = 10)
MaxInt == 2147483647

(* x * y without leaving TLC's 32-bit integers: the product, or MaxInt when it would not fit *)
SatMul(x, y) == IF x = 0 \/ y = 0 THEN 0 ELSE IF x > MaxInt \div y THEN MaxInt ELSE x * y

(* level >= L for certain / level < L for certain  (L = 1..10, 0 < total < 21474 so that total * Scale[L] fits; a right-hand *)
(* side that saturates is larger than any left-hand side, which is the right answer)                                        *)
SurelyAtLeast(c, t, a, L) == c = 0 \/ t * Scale[L] >= SatMul(SatMul(c, a), EL[L] + Margin(L))
SurelyBelow(c, t, a, L) == c > 0 /\ t * Scale[L] < SatMul(SatMul(c, a), EL[L])

Admissible(c, t, a) == { L \in 0..MaxLevel : /\ (L = 0 \/ ~SurelyBelow(c, t, a, L))
                                             /\ (L = MaxLevel \/ ~SurelyAtLeast(c, t, a, L + 1)) }
=============================================================================
