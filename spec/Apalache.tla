--------------------------- MODULE Apalache -----------------------------------
(*
 * This is a standard module for use with the Apalache model checker.
 * The meaning of the operators is explained in the comments.
 * Many of the operators serve as additional annotations of their arguments.
 * As we like to preserve compatibility with TLC and TLAPS, we define the
 * operator bodies by erasure. The actual interpretation of the operators is
 * encoded inside Apalache. For the moment, these operators are mirrored in
 * the class at.forsyte.apalache.tla.lir.oper.ApalacheOper.
 *                                                                          
 * Igor Konnov, Jure Kukovec, Informal Systems 2020-2022
 * Igor Konnov, konnov.phd, 2026
 *)

(**
 * An assignment of an expression e to a state variable x. Typically, one
 * uses the non-primed version of x in the initializing predicate Init and
 * the primed version of x (that is, x') in the transition predicate Next.
 * Although TLA+ does not have a concept of a variable assignment, we find
 * this concept extremely useful for symbolic model checking. In pure TLA+,
 * one would simply write x = e, or x \in {e}.
 *
 * Apalache automatically converts some expressions of the form
 * x = e or x \in {e} into assignments. However, if you like to annotate
 * assignments by hand, you can use this operator.
 *
 * For a further discussion on that matter, see:
 * https://github.com/apalache-mc/apalache/blob/main/docs/src/idiomatic/001assignments.md
 *)
__x := __e == __x = __e

(**
 * A generator of a data structure. Given a positive integer `bound`, and
 * assuming that the type of the operator application is known, we
 * recursively generate a TLA+ data structure as a tree, whose width is
 * bound by the number `bound`.
 *
 * The body of this operator is redefined by Apalache.
 *)
Gen(__size) == {}

(**
 * Non-deterministically pick a value out of the set `S`, if `S` is non-empty.
 * If `S` is empty, return some value of the proper type.  This can be
 * understood as a non-deterministic version of CHOOSE x \in S: TRUE.
 *
 * @type: Set(a) => a;
 *)
Guess(__S) ==
    \* Since this is not supported by TLC,
    \* we fall back to the deterministic version for TLC.
    \* Apalache redefines the operator `Guess` as explained above.
    CHOOSE __x \in __S: TRUE

(**
 * Convert a set of pairs S to a function F. Note that if S contains at least
 * two pairs <<x, y>> and <<u, v>> such that x = u and y /= v,
 * then F is not uniquely defined. We use CHOOSE to resolve this ambiguity.
 * Apalache implements a more efficient encoding of this operator
 * than the default one.
 *
 * @type: Set(<<a, b>>) => (a -> b);
 *)
SetAsFun(__S) ==
    LET __Dom == { __x: <<__x, __y>> \in __S }
        __Rng == { __y: <<__x, __y>> \in __S }
    IN
    [ __x \in __Dom |-> CHOOSE __y \in __Rng: <<__x, __y>> \in __S ]

(**
 * A sequence constructor that avoids using a function constructor.
 * Since Apalache is typed, this operator is more efficient than
 * FunAsSeq([ i \in 1..N |-> F(i) ]). Apalache requires N to be
 * a constant expression.
 *
 * @type: (Int, (Int -> a)) => Seq(a);
 *)
LOCAL INSTANCE Integers
MkSeq(__N, __F(_)) ==
    \* This is the TLC implementation. Apalache does it differently.
    \* If __F is not defined on i \in 1..__N, TLC fails.
    \* Apalache evaluates symbolically. This is why definitions
    \* like `FunAsSeq` work.
    [ __i \in (1..__N) |-> __F(__i) ]

\* required by our default definition of FoldSeq and FunAsSeq
LOCAL INSTANCE Sequences

(**
 * As TLA+ is untyped, one can use function- and sequence-specific operators
 * interchangeably. However, to maintain correctness w.r.t. our type-system,
 * an explicit cast is needed when using functions as sequences.
 * FunAsSeq reinterprets a function over integers as a sequence.
 *
 * The parameters have the following meaning:
 *
 *  - fn is the function from 1..len that should be interpreted as a sequence.
 *  - len is the length of the sequence, len = Cardinality(DOMAIN fn),
 *    len may be a variable, a computable expression, etc.
 *  - capacity is a static upper bound on the length, that is, len <= capacity.
 *
 * @type: ((Int -> a), Int, Int) => Seq(a);
 *)
FunAsSeq(__fn, __len, __capacity) ==
    LET __FunAsSeq_elem_ctor(__i) == __fn[__i] IN
    SubSeq(MkSeq(__capacity, __FunAsSeq_elem_ctor), 1, __len)

(**
 * Annotating an expression \E x \in S: P as Skolemizable. That is, it can
 * be replaced with an expression c \in S /\ P(c) for a fresh constant c.
 * Not every exisential can be replaced with a constant, this should be done
 * with care. Apalache detects Skolemizable expressions by static analysis.
 *)
Skolem(__e) == __e

(**
 * A hint to the model checker to expand a set S, instead of dealing
 * with it symbolically. Apalache finds out which sets have to be expanded
 * by static analysis.
 *)
Expand(__S) == __S

(**
 * A hint to the model checker to replace its argument Cardinality(S) >= k
 * with a series of existential quantifiers for a constant k.
 * Similar to Skolem, this has to be done carefully. Apalache automatically
 * places this hint by static analysis.
 *)
ConstCardinality(__cardExpr) == __cardExpr

(**
 * The folding operator, used to implement computation over a set.
 * Apalache implements a more efficient encoding than the one below.
 * (from the community modules).
 *
 * @type: ((a, b) => a, a, Set(b)) => a;
 *)
RECURSIVE ApaFoldSet(_, _, _)
ApaFoldSet(__Op(_,_), __v, __S) ==
    IF __S = {}
    THEN __v
    ELSE LET __w == CHOOSE __x \in __S: TRUE IN
         LET __T == __S \ {__w} IN
         ApaFoldSet(__Op, __Op(__v,__w), __T)

(**
 * The folding operator, used to implement computation over a sequence.
 * Apalache implements a more efficient encoding than the one below.
 * (from the community modules).
 *
 * @type: ((a, b) => a, a, Seq(b)) => a;
 *)
RECURSIVE ApaFoldSeqLeft(_, _, _)
ApaFoldSeqLeft(__Op(_,_), __v, __seq) ==
    IF __seq = <<>>
    THEN __v
    ELSE ApaFoldSeqLeft(__Op, __Op(__v, Head(__seq)), Tail(__seq))

(**
 * The repetition operator, used to consecutively apply an operator, starting from
 * an initial value.
 *
 * @type: ((a, Int) => a, Int, a) => a;
 *)
RECURSIVE Repeat(_,_,_)
Repeat(__F(_,_), __N, __x) ==
        \* This is the TLC implementation. Apalache does it differently.
        IF __N <= 0
        THEN __x
        ELSE __F(Repeat(__F, __N - 1, __x), __N)

===============================================================================
