SPECIFICATION FairSpec
CONSTANTS
  NA = 2
  NG = 2
  MaxLen = 3
  Levels = {0, 1}
  MaxLv = 3
  FixFirst = TRUE
  Rounds = 1
PROPERTY ReportsExhaustion
CHECK_DEADLOCK FALSE
