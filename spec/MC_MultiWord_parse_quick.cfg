SPECIFICATION ParseSpec
CONSTANTS
  Thr = 2
  MinLen = 2
  MaxLen = 7
  Letters = {"a", "b"}
  MaxPwLen = 0
  MaxHist = 1
  MaxQ = 6
  MaxBase = 3
  WordLens = {2, 3}
  Hists <- NoHists
  CntSpace <- MCCntOK
  Queries <- MCQueries
INVARIANT ParseSound
INVARIANT ParseComplete
CHECK_DEADLOCK FALSE
