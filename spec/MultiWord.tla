------------------------------ MODULE MultiWord ------------------------------
(***************************************************************************)
(* lib_trainer/detection_rules/multiword_detector.py  MultiWordDetector    *)
(*                                                                         *)
(* I-layer                                                                 *)
(*   train():  one action per character of the (lower-cased) password:     *)
(*     the trie pointer `index` is modelled by the path it stands for      *)
(*     (idx), `run_len` by run, the "count" leaves of the trie by the      *)
(*     function cnt : word -> count.  A run is closed (and counted when it *)
(*     has at least MinLen letters) by a non-letter or by the end of the   *)
(*     password, and closing a run ALWAYS resets pointer and run length -  *)
(*     also when the run was too short to be counted.                      *)
(*   parse() / _identify_multi(): transcribed as recursive functions       *)
(*     (longest first word first, recursion into the remainder, first hit  *)
(*     wins).                                                              *)
(* P-layer (C05, "for every prior training history of the multi-word       *)
(* detector")                                                              *)
(*   TrainIsTally   after training on a history the count of a word is the *)
(*                  number of maximal letter runs equal to it in the       *)
(*                  passwords of admissible length (words shorter than     *)
(*                  MinLen are never counted)                              *)
(*   ParseSound     the parts concatenate to the input; a split has >= 2   *)
(*                  parts, each seen >= Thr times, the whole seen < Thr    *)
(*   ParseComplete  a string that can be cut into base words is split      *)
(*                  (unless it is itself a base word or out of bounds)     *)
(***************************************************************************)
EXTENDS Integers, Sequences, FiniteSets, TLC

CONSTANTS Thr,         \* threshold (code default 5)
          MinLen,      \* min_len   (code default 4)
          MaxLen,      \* max_len   (code default 21)
          Letters,     \* characters for which isalpha() holds (already lower-cased)
          Hists,       \* set of training histories: Seq(password), password = Seq(character)
          CntSpace,    \* set of count tables for the parse model check
          Queries      \* set of alpha strings for the parse model check

VARIABLES hist, h, pos, idx, run, cnt, q
vars == <<hist, h, pos, idx, run, cnt, q>>

IsL(c) == c \in Letters
Get(c, w) == IF w \in DOMAIN c THEN c[w] ELSE 0
Bump(c, w) == IF w \in DOMAIN c THEN [c EXCEPT ![w] = @ + 1] ELSE [x \in DOMAIN c \cup {w} |-> IF x = w THEN 1 ELSE c[x]]
Empty == [x \in {} |-> 0]

---------------------------------------------------------------------------
(* I-layer: train() over a history *)
PW == hist[h]
TrainInit == /\ hist \in Hists /\ h = 1 /\ pos = 0 /\ idx = <<>> /\ run = 0 /\ cnt = Empty /\ q = <<>>

(* quick bail out / set-up of the loop *)
StartPw == /\ h <= Len(hist) /\ pos = 0
           /\ IF Len(PW) < MinLen \/ Len(PW) > MaxLen
                THEN h' = h + 1 /\ UNCHANGED <<pos, idx, run>>
                ELSE pos' = 1 /\ idx' = <<>> /\ run' = 0 /\ UNCHANGED h
           /\ UNCHANGED <<hist, cnt, q>>

Letter == /\ h <= Len(hist) /\ pos >= 1 /\ pos <= Len(PW) /\ IsL(PW[pos])
          /\ run' = run + 1 /\ idx' = Append(idx, PW[pos]) /\ pos' = pos + 1
          /\ UNCHANGED <<hist, h, cnt, q>>

Close(c) == IF run # 0 /\ run >= MinLen THEN Bump(c, idx) ELSE c

NonLetter == /\ h <= Len(hist) /\ pos >= 1 /\ pos <= Len(PW) /\ ~IsL(PW[pos])
             /\ cnt' = Close(cnt)
             /\ run' = 0 /\ idx' = <<>>           \* reset whether or not the run was long enough to count
             /\ pos' = pos + 1
             /\ UNCHANGED <<hist, h, q>>

EndPw == /\ h <= Len(hist) /\ pos >= 1 /\ pos > Len(PW)
         /\ cnt' = Close(cnt)
         /\ run' = 0 /\ idx' = <<>> /\ pos' = 0 /\ h' = h + 1
         /\ UNCHANGED <<hist, q>>

TrainNext == StartPw \/ Letter \/ NonLetter \/ EndPw
TrainSpec == TrainInit /\ [][TrainNext]_vars

(* P-layer meaning of a history *)
RunsOf(pw) == { r \in (1..Len(pw)) \X (1..Len(pw)) :
                  /\ r[1] <= r[2] /\ \A i \in r[1]..r[2] : IsL(pw[i])
                  /\ (r[1] = 1 \/ ~IsL(pw[r[1] - 1])) /\ (r[2] = Len(pw) \/ ~IsL(pw[r[2] + 1])) }
Admissible(pw) == Len(pw) >= MinLen /\ Len(pw) <= MaxLen
TallyPw(pw, w) == IF Admissible(pw) /\ Len(w) >= MinLen
                    THEN Cardinality({ r \in RunsOf(pw) : SubSeq(pw, r[1], r[2]) = w }) ELSE 0
RECURSIVE Tally(_, _, _)
Tally(hs, n, w) == IF n = 0 THEN 0 ELSE Tally(hs, n - 1, w) + TallyPw(hs[n], w)
WordsOf(hs, n) == UNION { { SubSeq(hs[k], r[1], r[2]) : r \in RunsOf(hs[k]) } : k \in 1..n }

TrainIsTally == pos = 0 => /\ \A w \in WordsOf(hist, h - 1) : Get(cnt, w) = Tally(hist, h - 1, w)
                           /\ \A w \in DOMAIN cnt : cnt[w] = Tally(hist, h - 1, w) /\ cnt[w] >= 1
(* the pointer stands for the letters of the current run, nothing else *)
PointerIsRun == pos >= 1 => /\ run = Len(idx) /\ run <= pos - 1
                            /\ idx = SubSeq(PW, pos - run, pos - 1)
                            /\ \A i \in 1..Len(idx) : IsL(idx[i])
                            /\ (pos - run = 1 \/ ~IsL(PW[pos - run - 1]))

---------------------------------------------------------------------------
(* I-layer: parse() / _identify_multi() as functions of the count table *)
None == <<>>
RECURSIVE IdentifyMulti(_, _)
IdentifyMulti(c, s) ==
   LET RECURSIVE Try(_)
       Try(index) ==
          IF index < MinLen THEN None
          ELSE LET pre == SubSeq(s, 1, index)
                   rest == SubSeq(s, index + 1, Len(s)) IN
               IF Get(c, pre) >= Thr
                 THEN IF Get(c, rest) >= Thr THEN <<pre, rest>>
                      ELSE LET r == IdentifyMulti(c, rest) IN
                           IF r # None THEN <<pre>> \o r ELSE Try(index - 1)
                 ELSE Try(index - 1)
   IN Try(Len(s) - MinLen)

Parse(c, s) ==
   IF Len(s) < MinLen THEN [ok |-> FALSE, parts |-> <<s>>]
   ELSE IF Len(s) >= MaxLen THEN [ok |-> FALSE, parts |-> <<s>>]
   ELSE IF Get(c, s) >= Thr THEN [ok |-> TRUE, parts |-> <<s>>]
   ELSE IF Len(s) < 2 * MinLen THEN [ok |-> FALSE, parts |-> <<s>>]
   ELSE LET r == IdentifyMulti(c, s) IN
        IF r = None THEN [ok |-> FALSE, parts |-> <<s>>] ELSE [ok |-> TRUE, parts |-> r]

(* P-layer of parse *)
RECURSIVE Concat(_)
Concat(ps) == IF ps = <<>> THEN <<>> ELSE Head(ps) \o Concat(Tail(ps))
IsBase(c, w) == Get(c, w) >= Thr
(* s can be cut into >= 2 base words *)
RECURSIVE CanCut(_, _)
CanCut(c, s) == \E i \in 1..(Len(s) - 1) :
                   /\ IsBase(c, SubSeq(s, 1, i))
                   /\ (IsBase(c, SubSeq(s, i + 1, Len(s))) \/ CanCut(c, SubSeq(s, i + 1, Len(s))))
Sound(c, s, r) ==
   /\ Concat(r.parts) = s
   /\ Len(r.parts) >= 1
   /\ Len(r.parts) = 1 => r.parts = <<s>> /\ (r.ok <=> (IsBase(c, s) /\ Len(s) >= MinLen /\ Len(s) < MaxLen))
   /\ Len(r.parts) > 1 => /\ r.ok /\ ~IsBase(c, s)
                          /\ \A k \in 1..Len(r.parts) : IsBase(c, r.parts[k]) /\ Len(r.parts[k]) >= MinLen
Complete(c, s, r) ==
   (Len(s) >= 2 * MinLen /\ Len(s) < MaxLen /\ ~IsBase(c, s) /\ CanCut(c, s)) => Len(r.parts) > 1

(* a count table a training history can produce: only words of at least MinLen letters *)
Trainable(c) == \A w \in DOMAIN c : Len(w) >= MinLen /\ c[w] >= 1

ParseInit == /\ cnt \in CntSpace /\ q \in Queries
             /\ hist = <<>> /\ h = 1 /\ pos = 0 /\ idx = <<>> /\ run = 0
ParseSpec == ParseInit /\ [][UNCHANGED vars]_vars
ParseSound == Trainable(cnt) => Sound(cnt, q, Parse(cnt, q))
ParseComplete == Trainable(cnt) => Complete(cnt, q, Parse(cnt, q))
=============================================================================
