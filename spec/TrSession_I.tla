---------------------------- MODULE TrSession_I ----------------------------
(***************************************************************************)
(* I-layer conformance for C12 / C15: the gate log of a real two-thread    *)
(* session (harness/gated.py) must be, entry by entry, a behaviour of      *)
(* Session.tla, with the model's stream and persistent store equal to the  *)
(* real ones at the end.  The pre-terminal list PT of the ruleset is in    *)
(* PT_FILE (all traces of one TLC run belong to one ruleset).              *)
(*  T.init   = [sess, maxp, hasomen, ognum, opt, opos] store the session   *)
(*             starts from (session 1: the defaults)                       *)
(*  T.script = the keyboard script                                         *)
(*  T.ev[i]  = [w thread, g gate, a argument]  (a: the <<pt, k>> printed   *)
(*             for "emit", the line for "input", else 0)                   *)
(*  T.final  = [stream, maxp, hasomen, ng] of the real run                 *)
(* A rejection is reported as implementation drift, never as a verdict.    *)
(***************************************************************************)
EXTENDS Session, TLCExt, Json, IOUtils

Traces == TLCEval(ndJsonDeserialize(IOEnv.TRACE_FILE))
PTData == TLCEval(JsonDeserialize(IOEnv.PT_FILE))
NT == Len(Traces)
VARIABLES tid, l
tvars == <<vars, tid, l>>
T == Traces[tid]

TInit == /\ tid \in 1..NT /\ l = 1
         /\ sav = [maxp |-> T.init.maxp, hasomen |-> T.init.hasomen, ognum |-> T.init.ognum, ng |-> T.init.ng]
         /\ omn = [pt |-> T.init.opt, pos |-> T.init.opos]
         /\ sess = T.init.sess /\ script = T.script /\ spos = 1
         /\ mpc = "start" /\ q = <<>> /\ cur = 0 /\ j = 0 /\ sexit = FALSE /\ oexit = FALSE /\ ognum = 0
         /\ cfgomen = FALSE /\ placeholder = FALSE /\ ng = 0 /\ cnt = 0
         /\ kpc = "nothread" /\ kline = "" /\ qseen = FALSE
         /\ stream = <<>>

Ev == T.ev[l]
Is(w, g) == l <= Len(T.ev) /\ Ev.w = w /\ Ev.g = g /\ l' = l + 1 /\ UNCHANGED tid

TNext == \/ Is("M", "start") /\ MStart
         \/ Is("M", "save") /\ (MSave0 \/ MSave)
         \/ Is("M", "thread_started") /\ MThreadStarted
         \/ Is("M", "emit") /\ (MOmenEmit \/ MEmit) /\ stream'[Len(stream')] = <<Ev.a[1], Ev.a[2]>>
         \/ Is("M", "read_exit") /\ (MOmenChk \/ (FixChk /\ MChk))
         \/ Is("M", "read_alive") /\ (~FixChk /\ MChk)
         \/ Is("M", "pop") /\ MPop
         \/ Is("K", "start") /\ KStart
         \/ Is("K", "input") /\ KInput
         \/ Is("K", "sleep") /\ KSleep
         \/ Is("K", "status") /\ KStatus
         \/ Is("K", "set_exit") /\ KSetExit
TSpec == TInit /\ [][TNext]_tvars

Consumed == l = Len(T.ev) + 1
FinalOK == /\ stream = [i \in DOMAIN T.final.stream |-> <<T.final.stream[i][1], T.final.stream[i][2]>>]
           /\ mpc = "done"
           /\ sav.maxp = T.final.maxp /\ sav.hasomen = T.final.hasomen
           /\ sav.ng = T.final.ng            \* report.num_guesses as written to the save file
Report == /\ ((Consumed /\ FinalOK) => PrintT(<<"ACCEPT", T.tid>>))
          /\ ((Consumed /\ ~FinalOK) => PrintT(<<"STUCK", T.tid, l, "final state differs", mpc, sav.maxp, sav.hasomen, sav.ng, Len(stream)>>))
          /\ ((~Consumed /\ ~ENABLED TNext) => PrintT(<<"STUCK", T.tid, l, Ev.g, mpc, kpc>>))
=============================================================================
