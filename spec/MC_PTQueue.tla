---------------------------- MODULE MC_PTQueue ----------------------------
(* Model-checking wrapper: the grammar space is defined here once; the harness exports the very
   same set (Export_PTQueue) to instantiate each grammar as a real ruleset. *)
EXTENDS PTQueue, SequencesExt, Json, IOUtils

CONSTANTS NTypes, MaxGroups, MaxW, MaxLen, MaxStructs, MaxBW

\* strictly decreasing weight sequences (the loader groups equal probabilities, files are sorted)
DecSeqs == { w \in UNION { [1..k -> 1..MaxW] : k \in 1..MaxGroups } :
               \A i \in 1..(Len(w) - 1) : w[i] > w[i + 1] }
WSpace == [1..NTypes -> DecSeqs]
TypeSeqs == UNION { [1..k -> 1..NTypes] : k \in 1..MaxLen }
Structs == { [t |-> ts, b |-> b] : ts \in TypeSeqs, b \in 1..MaxBW }
\* structure lists are written to grammar.txt in non-increasing base weight; duplicates allowed
SSpace == { ss \in UNION { [1..k -> Structs] : k \in 1..MaxStructs } :
               \A i \in 1..(Len(ss) - 1) : ss[i].b >= ss[i + 1].b }
\* drop grammars with unused types that differ only there: every type must be used
Used(g) == \A ty \in 1..NTypes : \E s \in 1..Len(g.S) : \E i \in 1..Len(g.S[s].t) : g.S[s].t[i] = ty
MCGrammars == { g \in { [W |-> w, S |-> ss] : w \in WSpace, ss \in SSpace } : Used(g) \/ NTypes = 1 }
=============================================================================
