------------------------------ MODULE TrLoader ------------------------------
(***************************************************************************)
(* P-layer trace specification for C14.                                    *)
(*  kind "load"   one real _load_base_structures call on a generated       *)
(*                grammar.txt: file (labels, integer weights over T.D),    *)
(*                flag, success, loaded list with probabilities            *)
(*                rationalised by the harness                              *)
(*  kind "structs" the structures a real load returned (T.loaded) against  *)
(*                the labels of the base-structure file (T.labels): every  *)
(*                A<n> is followed by its own C<n> (used for the PRINCE    *)
(*                folder by C17)                                           *)
(*  kind "stream" pre-terminal streams of the real queue for the default   *)
(*                run and the --skip_brute run of one ruleset              *)
(*  kind "lower"  loaded grammar with and without --all_lower              *)
(*  kind "lines"  a guess stream that must equal a reference stream        *)
(*                (flags taken from the save file on --load)               *)
(*  kind "resumed" a session started with flags and cut after T.cut lines  *)
(*                (T.first), resumed with a plain --load (T.got); T.ref =   *)
(*                the uninterrupted stream under the flags                  *)
(***************************************************************************)
EXTENDS Integers, Sequences, FiniteSets, Bags, TLC, TLCExt, Json, IOUtils

Traces == TLCEval(ndJsonDeserialize(IOEnv.TRACE_FILE))
NT == Len(Traces)
VARIABLES tid, l
tvars == <<tid, l>>
T == Traces[tid]

IsM(ln) == Len(ln.s) = 1 /\ ln.s[1][1] = "M"
RECURSIVE InsertC(_)
InsertC(s) == IF s = <<>> THEN <<>>
              ELSE IF Head(s)[1] = "A" THEN <<Head(s), <<"C", Head(s)[2]>>>> \o InsertC(Tail(s))
              ELSE <<Head(s)>> \o InsertC(Tail(s))
MWeight(f) == IF \E k \in 1..Len(f) : IsM(f[k])
                THEN f[CHOOSE k \in 1..Len(f) : IsM(f[k]) /\ \A j \in 1..(k - 1) : ~IsM(f[j])].w ELSE 0
Expected(f, sk) ==
   IF ~sk THEN [k \in 1..Len(f) |-> [s |-> InsertC(f[k].s), p |-> <<f[k].w, T.D>>]]
   ELSE LET nm == SelectSeq(f, LAMBDA ln : ~IsM(ln)) IN
        [k \in 1..Len(nm) |-> [s |-> InsertC(nm[k].s), p |-> <<nm[k].w, T.D - MWeight(f)>>]]
SameProb(a, b) == a[1] * b[2] = b[1] * a[2]

(* bag of the elements of a sequence, without recursion (long sequences overflow TLC's stack) *)
BagOfSeq(s) == [x \in { s[i] : i \in DOMAIN s } |-> Cardinality({ i \in DOMAIN s : s[i] = x })]
Keys(evs) == [k \in 1..Len(evs) |-> evs[k].key]
DefRank(key) == LET k == CHOOSE k \in 1..Len(T.def) : T.def[k].key = key IN T.def[k].r

(* C14 is RELATIVE to the default run: the reference is what the real loader returns without the flag *)
HasM(e) == \E k \in 1..Len(e.s) : e.s[k][1] = "M"
Ref == IF T.skip THEN SelectSeq(T.defout, LAMBDA e : ~HasM(e)) ELSE T.defout
PM == IF \E k \in 1..Len(T.defout) : HasM(T.defout[k])
        THEN T.defout[CHOOSE k \in 1..Len(T.defout) : HasM(T.defout[k]) /\ \A j \in 1..(k - 1) : ~HasM(T.defout[j])].p
        ELSE <<0, 1>>
(* p = q / (1 - pm)   <=>   p[1] * q[2] * (pm[2] - pm[1]) = p[2] * q[1] * pm[2] *)
Rescaled(p, q, pm) == p[1] * q[2] * (pm[2] - pm[1]) = p[2] * q[1] * pm[2]

NClauses == CASE T.kind = "load" -> 4 [] T.kind = "insert" -> 3 [] T.kind = "structs" -> 1 [] T.kind = "stream" -> 5 [] T.kind = "lower" -> 3 [] T.kind = "resumed" -> 3 [] OTHER -> 1
ClauseName(k) ==
  CASE T.kind = "load"   -> <<"C14_load_succeeds", "C14_same_structures_in_order", "C14_rescaled_by_1_minus_PM", "C14_numeric_residue">>[k]
    [] T.kind = "insert" -> <<"C03_ruleset_loads", "C03_every_alpha_variable_gets_its_case_mask", "C03_probabilities_as_written">>[k]
    [] T.kind = "structs" -> <<"every_alpha_variable_gets_its_own_case_mask">>[k]
    [] T.kind = "stream" -> <<"C14_load_succeeds", "C14_exactly_the_non_markov_preterminals", "C14_same_order", "C14_rescaled", "C14_no_markov_left">>[k]
    [] T.kind = "lower"  -> <<"C14_lower_other_types_unchanged", "C14_lower_masks_collapsed", "C14_lower_base_unchanged">>[k]
    [] T.kind = "resumed" -> <<"C14_first_session_is_the_prefix", "C14_restored_session_emits_the_rest", "C14_restored_session_stays_in_the_flagged_language">>[k]
    [] OTHER             -> <<"C14_stream_is_reference">>[k]
ClauseHolds(k) ==
  CASE T.kind = "load" /\ k = 1 -> T.dok => T.ok
    [] T.kind = "load" /\ k = 2 -> Len(T.out) = Len(Ref) /\ \A j \in 1..Len(Ref) : T.out[j].s = Ref[j].s
    [] T.kind = "load" /\ k = 3 -> \A j \in 1..Len(Ref) : IF T.skip THEN Rescaled(T.out[j].p, Ref[j].p, PM)
                                                                     ELSE SameProb(T.out[j].p, Ref[j].p)
    [] T.kind = "load" /\ k = 4 -> \A j \in 1..Len(T.out) : T.out[j].exact
    [] T.kind = "insert" /\ k = 1 -> T.dok
    [] T.kind = "insert" /\ k = 2 -> LET e == Expected(T.file, FALSE) IN
                                     Len(T.defout) = Len(e) /\ \A j \in 1..Len(e) : T.defout[j].s = e[j].s
    [] T.kind = "insert" /\ k = 3 -> LET e == Expected(T.file, FALSE) IN \A j \in 1..Len(e) : SameProb(T.defout[j].p, e[j].p)
    [] T.kind = "structs" -> Len(T.loaded) = Len(T.labels) /\ \A j \in 1..Len(T.labels) : T.loaded[j] = InsertC(T.labels[j])
    [] T.kind = "stream" /\ k = 1 -> T.ok
    [] T.kind = "stream" /\ k = 2 -> /\ BagOfSeq(Keys(T.skp)) = BagOfSeq(Keys(SelectSeq(T.def, LAMBDA e : ~e.m)))
                                      /\ \A i \in 1..Len(T.skp) : \E j \in 1..Len(T.def) :
                                             T.def[j].key = T.skp[i].key /\ T.def[j].r = T.skp[i].dr
    [] T.kind = "stream" /\ k = 3 -> \A i \in 1..Len(T.skp) : \A j \in (i + 1)..Len(T.skp) :
                                        T.skp[i].r = T.skp[j].r \/ T.skp[i].dr >= T.skp[j].dr
    [] T.kind = "stream" /\ k = 4 -> \A i \in 1..Len(T.skp) : T.skp[i].scaled
    [] T.kind = "stream" /\ k = 5 -> \A i \in 1..Len(T.skp) : ~T.skp[i].m
    [] T.kind = "lower" /\ k = 1 -> \A i \in 1..Len(T.gdef) : T.gdef[i].t[1] # "C" =>
                                       \E j \in 1..Len(T.glow) : T.glow[j] = T.gdef[i]
    [] T.kind = "lower" /\ k = 2 -> \A i \in 1..Len(T.gdef) : T.gdef[i].t[1] = "C" =>
                                       \E j \in 1..Len(T.glow) : /\ T.glow[j].t = T.gdef[i].t
                                                                  /\ Len(T.glow[j].groups) = 1
                                                                  /\ T.glow[j].groups[1].one
                                                                  /\ T.glow[j].groups[1].v = << [q \in 1..T.gdef[i].t[2] |-> "L"] >>
    [] T.kind = "lower" /\ k = 3 -> T.bdef = T.blow /\ Len(T.glow) = Len(T.gdef)
    [] T.kind = "resumed" /\ k = 1 -> T.first = SubSeq(T.ref, 1, Len(T.first))
    [] T.kind = "resumed" /\ k = 2 -> BagOfSeq(SubSeq(T.ref, Len(T.first) + 1, Len(T.ref))) \sqsubseteq BagOfSeq(T.got)
    [] T.kind = "resumed" /\ k = 3 -> \A i \in DOMAIN T.got : \E j \in DOMAIN T.ref : T.ref[j] = T.got[i]
    [] OTHER -> T.lines = T.ref

TInit == tid \in 1..NT /\ l = 1
TStep == /\ l <= NClauses /\ (ClauseHolds(l) = TRUE) /\ l' = l + 1 /\ UNCHANGED tid
TSpec == TInit /\ [][TStep]_tvars
Accepted == l = NClauses + 1
Report == /\ (Accepted => PrintT(<<"ACCEPT", T.tid>>))
          /\ ((l <= NClauses /\ (ClauseHolds(l) = FALSE)) => PrintT(<<"STUCK", T.tid, l, ClauseName(l)>>))
=============================================================================
