------------------------------ MODULE OmenEnum ------------------------------
(***************************************************************************)
(* I-layer model of the OMEN guess generator                               *)
(*   lib_guesser/omen/markov_cracker.py   MarkovCracker (length / initial  *)
(*        n-gram cursors, next_guess, _increase_ip/len_for_target)         *)
(*   lib_guesser/omen/guess_structure.py  GuessStructure (in-place parse   *)
(*        tree backtracking, _fill_out_parse_tree, _find_cp)               *)
(*   lib_guesser/omen/optimizer.py        Optimizer (memo keyed by         *)
(*        (length, initial n-gram, level), shared between levels)          *)
(* One action = one call of MarkovCracker.next_guess().  The memo is part  *)
(* of the state and survives from one level to the next, so the model      *)
(* checks C10's "does not depend on what the shared cache already holds".  *)
(*                                                                         *)
(* An ordered model OM carries the lists in file order (the generator      *)
(* walks them with cursors):                                               *)
(*    n      n-gram size                                                   *)
(*    lnl    level -> Seq(number of transitions)   (levels 0..MaxLevel)    *)
(*    ipl    level -> Seq(initial n-gram)                                  *)
(*    cpl    prefix -> (level -> Seq(next character))  (partial functions) *)
(* Indices into the lists are 1-based here (0-based in the code).          *)
(***************************************************************************)
EXTENDS Integers, Sequences, FiniteSets, TLC, SequencesExt

MaxLevel == 10
OptMax == 4              \* Optimizer(max_length = 4)
None == << >>              \* Python None: parse trees and guesses are never empty

Front1(s) == SubSeq(s, 1, Len(s) - 1)

(* _find_cp(ip, top_level, bottom_level): highest level in bottom..min(top, MaxLevel) with transitions from ip; -1 = None *)
FindCp(OM, ip, top, bottom) ==
   IF ip \notin DOMAIN OM.cpl THEN -1
   ELSE LET t0 == IF top > MaxLevel THEN MaxLevel ELSE top
            cand == { lv \in bottom..t0 : lv \in DOMAIN OM.cpl[ip] }
        IN IF cand = {} THEN -1 ELSE Max(cand)

Upd(memo, len, ip, tgt, val) == IF len <= OptMax
                                  THEN [k \in DOMAIN memo \cup { <<len, ip, tgt>> } |-> IF k = <<len, ip, tgt>> THEN val ELSE memo[k]]
                                  ELSE memo

(* _fill_out_parse_tree(ip, length, target_level) with the memo threaded through: returns [res, memo] *)
RECURSIVE Fill(_, _, _, _, _), FillLevels(_, _, _, _, _, _), FillIdx(_, _, _, _, _, _, _)
Fill(OM, ip, len, tgt, memo) ==
   IF len = 1
     THEN LET lv == FindCp(OM, ip, tgt, tgt) IN
          [res |-> IF lv = -1 THEN None ELSE << <<ip, lv, 1>> >>, memo |-> memo]
   ELSE IF len <= OptMax /\ <<len, ip, tgt>> \in DOMAIN memo
     THEN [res |-> memo[<<len, ip, tgt>>], memo |-> memo]
   ELSE FillLevels(OM, ip, len, tgt, tgt, memo)
FillLevels(OM, ip, len, tgt, cur, memo) ==
   IF cur < 0 THEN [res |-> None, memo |-> Upd(memo, len, ip, tgt, None)]
   ELSE LET lv == FindCp(OM, ip, cur, 0) IN
        IF lv = -1 THEN [res |-> None, memo |-> Upd(memo, len, ip, tgt, None)]
        ELSE FillIdx(OM, ip, len, tgt, lv, 1, memo)
FillIdx(OM, ip, len, tgt, lv, idx, memo) ==
   IF idx > Len(OM.cpl[ip][lv]) THEN FillLevels(OM, ip, len, tgt, lv - 1, memo)
   ELSE LET nip == Tail(ip) \o << OM.cpl[ip][lv][idx] >>
            r == Fill(OM, nip, len - 1, tgt - lv, memo)
        IN IF r.res # None
             THEN LET result == << <<ip, lv, idx>> >> \o r.res IN
                  [res |-> result, memo |-> Upd(r.memo, len, ip, tgt, result)]
             ELSE FillIdx(OM, ip, len, tgt, lv, idx + 1, r.memo)

(* _format_guess *)
Format(OM, ip, pt) == ip \o [i \in DOMAIN pt |-> OM.cpl[pt[i][1]][pt[i][2]][pt[i][3]]]

(* GuessStructure.next_guess(): gs = [ip, len, tgt, pt]; returns [gs, g (guess or None), memo] *)
RECURSIVE Back(_, _, _, _, _, _, _), Scan(_, _, _, _, _, _, _, _)
SetLast(pt, e) == [pt EXCEPT ![Len(pt)] = e]
(* inner loops: try the remaining transitions of the last element at `depth`, then lower depths, then pop up *)
Scan(OM, gs, pt, element, reqlen, reqlvl, depth, memo) ==
   LET last == pt[Len(pt)] IN
   IF last[3] <= Len(OM.cpl[last[1]][depth])
     THEN LET nip == Front1(element[1]) \o << OM.cpl[last[1]][depth][last[3]] >>
              r == Fill(OM, nip, reqlen, reqlvl - depth, memo)
          IN IF r.res # None
               THEN LET npt == pt \o r.res IN [gs |-> [gs EXCEPT !.pt = npt], g |-> Format(OM, gs.ip, npt), memo |-> r.memo]
               ELSE Scan(OM, gs, SetLast(pt, <<last[1], last[2], last[3] + 1>>), element, reqlen, reqlvl, depth, r.memo)
   ELSE LET lv == IF depth = 0 THEN -1 ELSE FindCp(OM, last[1], depth - 1, 0) IN
        IF lv # -1
          THEN Scan(OM, gs, SetLast(pt, <<last[1], lv, 1>>), element, reqlen, reqlvl, lv, memo)
          ELSE \* element = parse_tree.pop(); req_length += 1; req_level += new last's level
               LET npt == Front1(pt) IN
               Back(OM, gs, npt, last, reqlen + 1, IF npt = <<>> THEN reqlvl ELSE reqlvl + npt[Len(npt)][2], memo)
Back(OM, gs, pt, element, reqlen, reqlvl, memo) ==
   IF pt = <<>> THEN [gs |-> [gs EXCEPT !.pt = <<>>], g |-> None, memo |-> memo]
   ELSE LET last == pt[Len(pt)]
            pt1 == SetLast(pt, <<last[1], last[2], last[3] + 1>>)
        IN Scan(OM, gs, pt1, element, reqlen, reqlvl, last[2], memo)

GSNext(OM, gs, memo) ==
   IF gs.pt = <<>>
     THEN LET r == Fill(OM, gs.ip, gs.len, gs.tgt, memo) IN
          IF r.res = None THEN [gs |-> gs, g |-> None, memo |-> r.memo]
          ELSE [gs |-> [gs EXCEPT !.pt = r.res], g |-> Format(OM, gs.ip, r.res), memo |-> r.memo]
   ELSE LET last == gs.pt[Len(gs.pt)] IN
        IF last[3] + 1 <= Len(OM.cpl[last[1]][last[2]])
          THEN LET npt == SetLast(gs.pt, <<last[1], last[2], last[3] + 1>>) IN
               [gs |-> [gs EXCEPT !.pt = npt], g |-> Format(OM, gs.ip, npt), memo |-> memo]
          ELSE LET pt1 == Front1(gs.pt) IN
               IF pt1 = <<>> THEN [gs |-> [gs EXCEPT !.pt = <<>>], g |-> None, memo |-> memo]
               ELSE Back(OM, gs, pt1, last, 1, last[2] + pt1[Len(pt1)][2], memo)

---------------------------------------------------------------------------
(* MarkovCracker: mc = [T, len |-> <<level, index>>, ip |-> <<level, index>>, gs, live] *)
ListAt(f, lv) == IF lv \in DOMAIN f THEN f[lv] ELSE <<>>
(* _find_first_object; FixFirst: range(0, max_level + 1) (after fix F8) vs range(0, max_level) *)
FirstLevel(f, fixfirst) == LET top == IF fixfirst THEN MaxLevel ELSE MaxLevel - 1
                               cand == { lv \in 0..top : ListAt(f, lv) # <<>> }
                           IN IF cand = {} THEN -1 ELSE CHOOSE lv \in cand : \A x \in cand : lv <= x
NewGS(OM, T, lenc, ipc) == [ip |-> OM.ipl[ipc[1]][ipc[2]], len |-> OM.lnl[lenc[1]][lenc[2]], tgt |-> T - lenc[1] - ipc[1], pt |-> <<>>]

(* _increase_ip_for_target(working_target): next cursor or <<-1, -1>> *)
RECURSIVE IncCursor(_, _, _, _)
IncCursor(f, level, index, bound) ==      \* bound: stop once level exceeds it (and MaxLevel)
   IF level > MaxLevel THEN <<-1, -1>>
   ELSE IF Len(ListAt(f, level)) >= index THEN <<level, index>>
   ELSE IF level + 1 > MaxLevel \/ level + 1 > bound THEN <<-1, -1>>
   ELSE IncCursor(f, level + 1, 1, bound)

RECURSIVE Advance(_, _, _, _)
(* the `while guess is None` loop of MarkovCracker.next_guess *)
Advance(OM, mc, memo, start) ==
   LET r == GSNext(OM, mc.gs, memo) IN
   IF r.g # None THEN [mc |-> [mc EXCEPT !.gs = r.gs], g |-> r.g, memo |-> r.memo]
   ELSE LET nip == IncCursor(OM.ipl, mc.ip[1], mc.ip[2] + 1, mc.T - mc.len[1]) IN
        IF nip # <<-1, -1>>
          THEN Advance(OM, [mc EXCEPT !.ip = nip, !.gs = NewGS(OM, mc.T, mc.len, nip)], r.memo, start)
          ELSE LET nlen == IncCursor(OM.lnl, mc.len[1], mc.len[2] + 1, mc.T) IN
               IF nlen # <<-1, -1>>
                 THEN Advance(OM, [mc EXCEPT !.len = nlen, !.ip = <<start.ip, 1>>, !.gs = NewGS(OM, mc.T, nlen, <<start.ip, 1>>)], r.memo, start)
                 ELSE [mc |-> [mc EXCEPT !.live = FALSE], g |-> None, memo |-> r.memo]

MCInit(OM, T, fixfirst) ==
   LET sip == FirstLevel(OM.ipl, fixfirst)
       sln == FirstLevel(OM.lnl, fixfirst)
   IN IF sip = -1 \/ sln = -1 THEN [T |-> T, raised |-> TRUE]
      ELSE [T |-> T, raised |-> FALSE, start |-> [ip |-> sip, len |-> sln],
            mc |-> [T |-> T, len |-> <<sln, 1>>, ip |-> <<sip, 1>>, live |-> TRUE,
                    gs |-> NewGS(OM, T, <<sln, 1>>, <<sip, 1>>)]]

MCNext(OM, st, memo) == Advance(OM, st.mc, memo, st.start)
=============================================================================
