SPECIFICATION Spec
CONSTANTS
  MaxRec = 2
  MaxLen = 3
  FixJoin = TRUE
  Files <- MCFiles
INVARIANT EquivalentEncodings
CHECK_DEADLOCK FALSE
