SPECIFICATION Spec
CONSTANTS
  MaxLen = 4
  ExcludeBadCase = TRUE
INVARIANT PromiseKept
INVARIANT TilingOK
CHECK_DEADLOCK FALSE
