------------------------------ MODULE TrPTQ_I ------------------------------
(***************************************************************************)
(* I-layer conformance: a recorded history of the real PcfgQueue (pops,    *)
(* the heap content after every pop, the heap rebuilt by --load) must be a *)
(* behaviour of PTQueue with the abstract state equal after every action.  *)
(* Only for rulesets generated from integer-weight grammars (T.g).         *)
(* A rejection here is reported as implementation drift, not as a property *)
(* violation.                                                              *)
(***************************************************************************)
EXTENDS PTQueue, TLCExt, Json, IOUtils

Traces == TLCEval(ndJsonDeserialize(IOEnv.TRACE_FILE))
NT == Len(Traces)
VARIABLES tid, l
tvars == <<vars, tid, l>>
T == Traces[tid]

BagOfSeq(q) == LET F[i \in 0..Len(q)] == IF i = 0 THEN EmptyBag ELSE F[i - 1] (+) SetToBag({ <<q[i][1], q[i][2]>> })
               IN F[Len(q)]

TInit == /\ tid \in 1..NT /\ l = 1
         /\ G = T.g
         /\ queue = InitialQueue
         /\ cur = <<>> /\ pc = "run" /\ cycles = 0 /\ saved = INF
         /\ done = {} /\ emS = EmptyBag /\ lastP = INF

Ev == T.iev[l]
Is(a) == l <= Len(T.iev) /\ Ev.a = a /\ l' = l + 1 /\ UNCHANGED tid

TStart == Is("start") /\ queue = BagOfSeq(Ev.q) /\ UNCHANGED vars
TPop == Is("pop") /\ Pop /\ cur' = <<Ev.s, Ev.n>> /\ queue' = BagOfSeq(Ev.q)
TGuess == Is("guess") /\ Guess
TQuit == Is("quit") /\ QuitAndResume /\ queue' = BagOfSeq(Ev.q)
TFinish == Is("finish") /\ Finish

TNext == TStart \/ TPop \/ TGuess \/ TQuit \/ TFinish
TSpec == TInit /\ [][TNext]_tvars

Accepted == l = Len(T.iev) + 1
Report == /\ (Accepted => PrintT(<<"ACCEPT", T.tid>>))
          /\ ((~ENABLED TNext /\ ~Accepted) => PrintT(<<"STUCK", T.tid, l, IF l <= Len(T.iev) THEN Ev.a ELSE "?">>))
=============================================================================
