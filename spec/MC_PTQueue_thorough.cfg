SPECIFICATION Spec
CONSTANTS
  NTypes = 2
  MaxGroups = 3
  MaxW = 4
  MaxLen = 3
  MaxStructs = 1
  MaxBW = 1
  MaxCycles = 2
  StrictParent = FALSE
  Grammars <- MCGrammars
INVARIANT OrderOK
INVARIANT NoDupFresh
INVARIANT FrontierFresh
INVARIANT RepeatsOnlyTies
INVARIANT NothingLost
PROPERTY OrderStep
CHECK_DEADLOCK FALSE
