SPECIFICATION Spec
CONSTANTS
  NA = 2
  NG = 2
  MaxLen = 3
  Levels = {0, 1}
  MaxLv = 4
  FixKeyLen = TRUE
  FixKeyZero = TRUE
INVARIANT TwoDefinitionsAgree
INVARIANT KeyspaceDPIsKeyspace
INVARIANT KeyspaceExact
INVARIANT ThreeAgree
CHECK_DEADLOCK FALSE
