SPECIFICATION Spec
CONSTANTS
  D = 8
  MaxLines = 3
  FixSeek = TRUE
  FixMSkip = TRUE
  Files <- MCFiles
INVARIANT PureRestriction
CHECK_DEADLOCK FALSE
