------------------------------ MODULE MC_Reader ------------------------------
EXTENDS Reader
CONSTANTS MaxRec, MaxLen
Chars == {"a", "sp", "c", "L", "t"}
Strs == UNION { [1..k -> Chars] : k \in 0..MaxLen }
Recs == [n : 1..2, s : Strs]
MCFiles == UNION { [1..k -> Recs] : k \in 1..MaxRec }
=============================================================================
