------------------------------- MODULE TrPTQ -------------------------------
(***************************************************************************)
(* P-layer trace specification for C01 / C02 / C08 / C17(order part).      *)
(* A trace is one recorded history of the real PcfgQueue / CrackingSession *)
(* on one ruleset: a sequence of sessions, each a sequence of emitted      *)
(* pre-terminals.  Probabilities appear as dense ranks of the floats the   *)
(* tool reported (higher rank = more probable), so every comparison TLC    *)
(* makes is the comparison the floats would give.                          *)
(*   T.sizes[s][p]  number of groups of the variable at position p of      *)
(*                  structure s   (the node universe, from the loaded      *)
(*                  ruleset, independent of the queue)                     *)
(*   T.sess[i].saved rank of the restored max_probability (INF first)      *)
(*   T.sess[i].ev[l] = [s, n, r, ok]   ok: reported prob = product (Python)*)
(*   T.exhausted    the last session ran until next() returned None        *)
(*   T.mode         which property's clauses are demanded                  *)
(***************************************************************************)
EXTENDS Naturals, Sequences, FiniteSets, TLC, TLCExt, Json, IOUtils

Traces == TLCEval(ndJsonDeserialize(IOEnv.TRACE_FILE))
NT == Len(Traces)

VARIABLES tid, si, l, seen, done, last
vars == <<tid, si, l, seen, done, last>>

INF == 1000000
T == Traces[tid]
NS == Len(T.sess)
Sess == T.sess[si]
Key(e) == <<e.s, e.n>>

RECURSIVE Tuples(_, _)
Tuples(sz, k) == IF k = 0 THEN { <<>> } ELSE { Append(t, i) : t \in Tuples(sz, k - 1), i \in 1..sz[k] }
Nodes == UNION { { <<s, idx>> : idx \in Tuples(T.sizes[s], Len(T.sizes[s])) } : s \in 1..Len(T.sizes) }

C01 == T.mode \in {"C01", "C01_prefix", "ALL"}
C02 == T.mode \in {"C02", "ALL"}
C08 == T.mode \in {"C08", "ALL"}

(* clauses of Emit, in the order they are reported *)
EmitClauses(e) == <<
  << "is_node",        T.mode = "C01_prefix" \/ Key(e) \in Nodes >>,
  << "C01_order",      (C01 \/ C08) => e.r <= last >>,
  << "C01_reported",   C01 => e.ok >>,
  << "C08_not_above_saved", C08 => e.r <= Sess.saved >>,
  << "C02_no_repeat",  (C02 /\ NS = 1) => Key(e) \notin seen >>,
  << "C08_repeat_only_ties", C08 => ((Key(e) \in seen \/ Key(e) \in done) => e.r = Sess.saved) >> >>

AllTrue(cl) == \A i \in 1..Len(cl) : cl[i][2]
FirstFalse(cl) == LET i == CHOOSE i \in 1..Len(cl) : ~cl[i][2] /\ \A j \in 1..(i - 1) : cl[j][2] IN cl[i][1]

Init == /\ tid \in 1..NT /\ si = 1 /\ l = 1 /\ seen = {} /\ done = {} /\ last = INF

Emit == /\ si <= NS /\ l <= Len(Sess.ev)
        /\ LET e == Sess.ev[l] IN
             /\ (AllTrue(EmitClauses(e)) = TRUE)
             /\ seen' = seen \cup {Key(e)}
             /\ last' = e.r
        /\ l' = l + 1 /\ UNCHANGED <<tid, si, done>>

(* the user quit: the next session starts from the saved position *)
NextSession == /\ si < NS /\ l = Len(Sess.ev) + 1
               /\ si' = si + 1 /\ l' = 1 /\ done' = done \cup seen /\ seen' = {} /\ last' = INF
               /\ UNCHANGED tid

EndClauses == <<
  << "run_does_not_raise", ~T.raised >>,
  << "C01_deterministic", C01 => T.ev2 = T.sess[1].ev >>,
  << "C02_complete",   (C02 /\ T.exhausted /\ NS = 1) => seen = Nodes >>,
  << "C08_nothing_lost", (C08 /\ T.exhausted) => done \cup seen = Nodes >> >>

End == /\ si = NS /\ l = Len(Sess.ev) + 1
       /\ (AllTrue(EndClauses) = TRUE)
       /\ si' = NS + 1 /\ UNCHANGED <<tid, l, seen, done, last>>

Next == Emit \/ NextSession \/ End
Spec == Init /\ [][Next]_vars

Accepted == si = NS + 1
Why == IF si <= NS /\ l <= Len(Sess.ev) THEN FirstFalse(EmitClauses(Sess.ev[l]))
       ELSE IF si = NS THEN FirstFalse(EndClauses) ELSE "?"
(* Next is deterministic; the stuck condition is written out as a state predicate because TLC's
   ENABLED evaluator branches on every disjunction inside the clauses *)
CanEmit == si <= NS /\ l <= Len(Sess.ev) /\ AllTrue(EmitClauses(Sess.ev[l]))
CanNextSession == si < NS /\ l = Len(Sess.ev) + 1
CanEnd == si = NS /\ l = Len(Sess.ev) + 1 /\ AllTrue(EndClauses)
Report == /\ (Accepted => PrintT(<<"ACCEPT", T.tid>>))
          /\ ((~Accepted /\ ~CanEmit /\ ~CanNextSession /\ ~CanEnd) => PrintT(<<"STUCK", T.tid, si, l, Why>>))
=============================================================================
