------------------------------- MODULE Segment -------------------------------
(***************************************************************************)
(* I-layer model of the trainer's segmentation pipeline                    *)
(*   lib_trainer/pcfg_password_parser.py parse() and detection_rules/:     *)
(*   year -> context-sensitive -> alpha -> digit -> other                  *)
(* as exact stage functions over abstract characters, and the P-layer of   *)
(* C05 (lossless tiling, no empty / untyped segment, sound labels).        *)
(* The keyboard, e-mail and website stages are heuristics: on the model's  *)
(* alphabet they never fire (no four adjacent keys, no '.'), and on real   *)
(* traces they are judged by soundness only (TrSeg).  Multi-word splitting *)
(* needs eight letters and is judged on traces as well.                    *)
(* A section is [t |-> Seq(char), k |-> kind ("" unlabelled), n |-> number]*)
(***************************************************************************)
EXTENDS Integers, Sequences, FiniteSets, TLC, SequencesExt

CONSTANTS Alphabet,     \* abstract characters (strings of length 1: "a" "B" "1" "9" "2" "0" "#" "<" "3" "!" " ")
          MaxLen

Letters == {"a", "B"}
Digits == {"1", "9", "2", "0", "3"}
IsA(c) == c \in Letters
IsD(c) == c \in Digits
Context == << <<"#", "1">>, <<"<", "3">> >>        \* the fixed list, in the code's order ("#1" before "<3")

Sec(t, k, n) == [t |-> t, k |-> k, n |-> n]
NoLab(s) == s.k = ""
Texts(sl) == FlattenSeq([i \in DOMAIN sl |-> sl[i].t])

(* replace the unlabelled section at index i by `parts` (dropping empty unlabelled remainders) *)
Parts(pre, mid, post) == (IF pre = <<>> THEN <<>> ELSE <<Sec(pre, "", 0)>>) \o <<mid>>
                         \o (IF post = <<>> THEN <<>> ELSE <<Sec(post, "", 0)>>)

(* ---- year_detection: first occurrence (prefix "19" tried before "20") of 19xx / 20xx not touching digits ---- *)
YearAt(t, i, p) == /\ i + 3 <= Len(t) /\ t[i] = p[1] /\ t[i + 1] = p[2]
                   /\ IsD(t[i + 2]) /\ IsD(t[i + 3])
                   /\ (i = 1 \/ ~IsD(t[i - 1])) /\ (i + 4 > Len(t) \/ ~IsD(t[i + 4]))
FirstYear(t) == LET c19 == { i \in 1..Len(t) : YearAt(t, i, <<"1", "9">>) }
                    c20 == { i \in 1..Len(t) : YearAt(t, i, <<"2", "0">>) }
                    mn(S) == CHOOSE i \in S : \A j \in S : i <= j
                IN IF c19 # {} THEN mn(c19) ELSE IF c20 # {} THEN mn(c20) ELSE 0
RECURSIVE YearSec(_)
YearSec(t) == LET i == FirstYear(t) IN
              IF i = 0 THEN <<Sec(t, "", 0)>>
              ELSE (IF i = 1 THEN <<>> ELSE YearSec(SubSeq(t, 1, i - 1)))
                   \o <<Sec(SubSeq(t, i, i + 3), "Y", 1)>>
                   \o (IF i + 4 > Len(t) THEN <<>> ELSE YearSec(SubSeq(t, i + 4, Len(t))))
Stage(sl, F(_)) == FlattenSeq([i \in DOMAIN sl |-> IF NoLab(sl[i]) THEN F(sl[i].t) ELSE <<sl[i]>>])
YearStage(sl) == Stage(sl, YearSec)

(* ---- context_sensitive_detection: first list entry that occurs (its first occurrence); "#1" not followed by ---- *)
(* ---- a digit two places further ("#1" guard of the code: index start+3)                                     ---- *)
Occ(t, r) == { i \in 1..(Len(t) - Len(r) + 1) : SubSeq(t, i, i + Len(r) - 1) = r }
FirstOcc(t, r) == IF Occ(t, r) = {} THEN 0 ELSE CHOOSE i \in Occ(t, r) : \A j \in Occ(t, r) : i <= j
Usable(t, r) == LET i == FirstOcc(t, r) IN
                  i # 0 /\ ~(r = <<"#", "1">> /\ i + 3 <= Len(t) /\ IsD(t[i + 3]))
RECURSIVE CtxSec(_)
CtxSec(t) == LET us == { k \in DOMAIN Context : Usable(t, Context[k]) } IN
             IF us = {} THEN <<Sec(t, "", 0)>>
             ELSE LET k == CHOOSE k \in us : \A j \in us : k <= j
                      r == Context[k]
                      i == FirstOcc(t, r) IN
                  (IF i = 1 THEN <<>> ELSE CtxSec(SubSeq(t, 1, i - 1)))
                  \o <<Sec(r, "X", 1)>>
                  \o (IF i + Len(r) > Len(t) THEN <<>> ELSE CtxSec(SubSeq(t, i + Len(r), Len(t))))
CtxStage(sl) == Stage(sl, CtxSec)

(* ---- alpha / digit: maximal runs ---- *)
RECURSIVE Runs(_, _, _)
Runs(t, P(_), lab) ==
   IF t = <<>> THEN <<>>
   ELSE LET first == P(t[1])
            n == CHOOSE n \in 1..Len(t) : (\A i \in 1..n : P(t[i]) = first) /\ (n = Len(t) \/ P(t[n + 1]) # first)
        IN <<Sec(SubSeq(t, 1, n), IF first THEN lab ELSE "", IF first THEN n ELSE 0)>> \o Runs(SubSeq(t, n + 1, Len(t)), P, lab)
AlphaStage(sl) == Stage(sl, LAMBDA t : Runs(t, IsA, "A"))
DigitStage(sl) == Stage(sl, LAMBDA t : Runs(t, IsD, "D"))
OtherStage(sl) == [i \in DOMAIN sl |-> IF NoLab(sl[i]) THEN Sec(sl[i].t, "O", Len(sl[i].t)) ELSE sl[i]]

Pipeline(pw) == OtherStage(DigitStage(AlphaStage(CtxStage(YearStage(<<Sec(pw, "", 0)>>)))))

---------------------------------------------------------------------------
VARIABLES pw, stage, sl
vars == <<pw, stage, sl>>
Strings == UNION { [1..n -> Alphabet] : n \in 1..MaxLen }
Init == pw \in Strings /\ stage = "input" /\ sl = <<Sec(pw, "", 0)>>
Step(from, to, F(_)) == stage = from /\ stage' = to /\ sl' = F(sl) /\ UNCHANGED pw
Next == \/ Step("input", "year", YearStage) \/ Step("year", "context", CtxStage)
        \/ Step("context", "alpha", AlphaStage) \/ Step("alpha", "digit", DigitStage)
        \/ Step("digit", "other", OtherStage)
Spec == Init /\ [][Next]_vars

(* ---- P-layer ---- *)
Tiling == Texts(sl) = pw                                   \* at every stage
NoEmpty == \A i \in DOMAIN sl : sl[i].t # <<>>
Sound(s) == /\ s.k \in {"A", "D", "O"} => s.n = Len(s.t)
            /\ s.k = "A" => \A i \in DOMAIN s.t : IsA(s.t[i])
            /\ s.k = "D" => \A i \in DOMAIN s.t : IsD(s.t[i])
            /\ s.k = "O" => \A i \in DOMAIN s.t : ~IsA(s.t[i]) /\ ~IsD(s.t[i])
            /\ s.k = "Y" => Len(s.t) = 4 /\ (\A i \in 1..4 : IsD(s.t[i])) /\ <<s.t[1], s.t[2]>> \in { <<"1", "9">>, <<"2", "0">> }
            /\ s.k = "X" => \E k \in DOMAIN Context : Context[k] = s.t
AllSound == \A i \in DOMAIN sl : Sound(sl[i])
AllTyped == stage = "other" => \A i \in DOMAIN sl : ~NoLab(sl[i])
(* digit segments are maximal within what the digit stage was given: no two adjacent D sections, and an *)
(* alpha / digit section never touches an unlabelled neighbour that starts or ends with the same class  *)
NoAdjacentSameRun == stage = "other" =>
      \A i \in 1..(Len(sl) - 1) : ~(sl[i].k = "D" /\ sl[i + 1].k = "D") /\ ~(sl[i].k = "A" /\ sl[i + 1].k = "A")
=============================================================================
