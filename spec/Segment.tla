------------------------------- MODULE Segment -------------------------------
(***************************************************************************)
(* I-layer model of the trainer's segmentation pipeline                    *)
(*   lib_trainer/pcfg_password_parser.py parse() and detection_rules/:     *)
(*   keyboard walk -> e-mail -> website -> year -> context-sensitive ->    *)
(*   alpha -> digit -> other                                               *)
(* as exact stage functions over abstract characters, and the P-layer of   *)
(* C05 (lossless tiling, no empty / untyped segment, sound labels).        *)
(* The keyboard-walk stage is transcribed exactly as well (run tracking    *)
(* per layout, the "interesting" filter), and so are the e-mail and        *)
(* website stages (TLD list in the code's order including its '.nl.se'     *)
(* entry, first-occurrence search, the false-positive loop of the website  *)
(* detector, host / prefix search, lower-cased website text).  Multi-word  *)
(* splitting is modelled in MultiWord.tla and judged on traces.            *)
(* A section is [t |-> Seq(char), k |-> kind ("" unlabelled), n |-> number]*)
(***************************************************************************)
EXTENDS Integers, Sequences, FiniteSets, TLC, SequencesExt

CONSTANTS Alphabet,     \* characters (strings of length 1) out of: a B q z c o m w  1 9 2 0 3  # < ! space . @ /
          MaxLen

Letters == {"a", "B", "q", "z", "c", "o", "m", "w", "b"}     \* "b" only arises as the lower-cased "B" of a website section
Low(c) == IF c = "B" THEN "b" ELSE c
LowSeq(t) == [i \in DOMAIN t |-> Low(t[i])]
Digits == {"1", "9", "2", "0", "3"}
IsA(c) == c \in Letters
IsD(c) == c \in Digits
Context == << <<"#", "1">>, <<"<", "3">> >>        \* the fixed list, in the code's order ("#1" before "<3")

Sec(t, k, n) == [t |-> t, k |-> k, n |-> n]
NoLab(s) == s.k = ""
Texts(sl) == FlattenSeq([i \in DOMAIN sl |-> sl[i].t])

(* replace the unlabelled section at index i by `parts` (dropping empty unlabelled remainders) *)
Parts(pre, mid, post) == (IF pre = <<>> THEN <<>> ELSE <<Sec(pre, "", 0)>>) \o <<mid>>
                         \o (IF post = <<>> THEN <<>> ELSE <<Sec(post, "", 0)>>)


(* ---- detect_keyboard_walk: key positions of the alphabet on the two layouts <<board, row, pos>>; a character ---- *)
(* ---- has at most one position per layout (find_keyboard_row_column takes the first row that contains it)    ---- *)
KeyPos(c) == CASE c = "1" -> { <<1, 1, 0>>, <<2, 1, 0>> } [] c = "2" -> { <<1, 1, 1>>, <<2, 1, 1>> }
               [] c = "3" -> { <<1, 1, 2>>, <<2, 1, 2>> } [] c = "9" -> { <<1, 1, 8>>, <<2, 1, 8>> }
               [] c = "0" -> { <<1, 1, 9>>, <<2, 1, 9>> } [] c = "!" -> { <<1, 1, 0>>, <<2, 1, 0>> }
               [] c = "#" -> { <<1, 1, 2>> } [] c = "q" -> { <<1, 2, 0>> } [] c = "a" -> { <<1, 3, 0>> }
               [] c = "z" -> { <<1, 4, 0>> } [] c = "B" -> { <<1, 4, 4>> } [] c = "<" -> { <<1, 4, 7>> }
               [] c = "c" -> { <<1, 4, 2>> } [] c = "m" -> { <<1, 4, 6>> } [] c = "o" -> { <<1, 2, 8>> }
               [] c = "w" -> { <<1, 2, 1>> } [] c = "." -> { <<1, 4, 8>> } [] c = "/" -> { <<1, 4, 9>>, <<2, 2, 12>> }
               [] c = "@" -> { <<1, 1, 1>> }
               [] OTHER -> {}
(* is_next_on_keyboard: layouts on which `cur` is a neighbour of `past` (same key does not count) *)
NextOn(p, q) == /\ p[1] = q[1] /\ ~(p[2] = q[2] /\ p[3] = q[3])
                /\ \/ (q[2] = p[2] /\ (q[3] = p[3] - 1 \/ q[3] = p[3] + 1))
                   \/ (q[2] = p[2] + 1 /\ (q[3] = p[3] \/ q[3] = p[3] - 1))
                   \/ (q[2] = p[2] - 1 /\ (q[3] = p[3] \/ q[3] = p[3] + 1))
AdjBoards(past, cur) == IF past = "" THEN {} ELSE { p[1] : p \in { p \in KeyPos(past) : \E q \in KeyPos(cur) : NextOn(p, q) } }
At(s, i) == IF i >= 1 /\ i <= Len(s) THEN s[i] ELSE ""
FromEnd(s, k) == At(s, Len(s) - k + 1)            \* combo[-k]
ClassCount(t) == (IF \E i \in DOMAIN t : IsA(t[i]) THEN 1 ELSE 0) + (IF \E i \in DOMAIN t : IsD(t[i]) THEN 1 ELSE 0)
                 + (IF \E i \in DOMAIN t : ~IsA(t[i]) /\ ~IsD(t[i]) THEN 1 ELSE 0)
(* interesting_keyboard (the false-positive word list needs letters that are not in this alphabet) *)
Interesting(cb) ==
   /\ At(cb, 1) # "e" /\ ~(At(cb, 2) = "e" /\ At(cb, 3) = "r") /\ ~(At(cb, 1) = "t" /\ At(cb, 2) = "y")
   /\ ~(At(cb, 1) = "t" /\ At(cb, 2) = "t" /\ At(cb, 3) = "y") /\ At(cb, 1) # "y"
   /\ ~(At(cb, 1) = "1" /\ At(cb, 2) = "2" /\ At(cb, 3) = "3")
   /\ ~(FromEnd(cb, 1) = "3" /\ FromEnd(cb, 2) = "2" /\ FromEnd(cb, 3) = "1" /\ FromEnd(cb, 4) \notin {"q", "Q"})
   /\ ClassCount(cb) >= 2
RECURSIVE KW(_), KScan(_, _, _, _, _)
KScan(pw, i, past, runs, combo) ==
   IF i > Len(pw)
     THEN IF Len(combo) >= 4 /\ Interesting(combo)
            THEN (IF Len(combo) # Len(pw) THEN <<Sec(SubSeq(pw, 1, Len(pw) - Len(combo)), "", 0)>> ELSE <<>>)
                 \o <<Sec(combo, "K", Len(combo))>>
            ELSE <<Sec(pw, "", 0)>>
   ELSE LET c == pw[i]
            cur == AdjBoards(past, c)
            runs2 == IF runs = {} THEN cur ELSE runs \cap cur
        IN IF runs2 # {} THEN KScan(pw, i + 1, c, runs2, Append(combo, c))
           ELSE IF Len(combo) >= 4 /\ Interesting(combo)
                  THEN (IF Len(combo) # i - 1 THEN <<Sec(SubSeq(pw, 1, i - 1 - Len(combo)), "", 0)>> ELSE <<>>)
                       \o <<Sec(combo, "K", Len(combo))>> \o KW(SubSeq(pw, i, Len(pw)))
                  ELSE KScan(pw, i + 1, c, {}, <<c>>)
KW(pw) == KScan(pw, 1, "", {}, <<>>)
KeyboardStage(sl) == KW(sl[1].t)        \* the first stage works on the whole password

(* ---- e-mail and website detection ---- *)
Stage(sl, F(_)) == FlattenSeq([i \in DOMAIN sl |-> IF NoLab(sl[i]) THEN F(sl[i].t) ELSE <<sl[i]>>])
(* tld_list.py, in the code's order; '.nl' '.se' lack a comma in the source and are ONE entry *)
Tlds == << <<".", "c", "o", "m">>, <<".", "o", "r", "g">>, <<".", "e", "d", "u">>, <<".", "g", "o", "v">>, <<".", "u", "k">>,
           <<".", "n", "e", "t">>, <<".", "c", "a">>, <<".", "d", "e">>, <<".", "j", "p">>, <<".", "f", "r">>, <<".", "a", "u">>,
           <<".", "u", "s">>, <<".", "r", "u">>, <<".", "c", "h">>, <<".", "i", "t">>, <<".", "n", "l", ".", "s", "e">>,
           <<".", "n", "o">>, <<".", "e", "s">>, <<".", "m", "i", "l">> >>
OccFrom(t, r, from) == { i \in from..(Len(t) - Len(r) + 1) : SubSeq(t, i, i + Len(r) - 1) = r }
FindFrom(t, r, from) == IF OccFrom(t, r, from) = {} THEN 0 ELSE CHOOSE i \in OccFrom(t, r, from) : \A j \in OccFrom(t, r, from) : i <= j
RFind(t, r) == LET o == OccFrom(t, r, 1) IN IF o = {} THEN 0 ELSE CHOOSE i \in o : \A j \in o : i >= j     \* str.rfind, 1-based, 0 = none
Has(t, c) == \E i \in DOMAIN t : t[i] = c
MinOf(S) == CHOOSE k \in S : \A j \in S : k <= j

(* detect_email: the first TLD of the list whose FIRST occurrence has an '@' somewhere before its end; the e-mail is *)
(* everything up to the end of that TLD; the remainder is examined again by the loop of email_detection            *)
RECURSIVE EmailSec(_)
EmailSec(t) ==
   LET ws == LowSeq(t)
       ok(k) == LET p == FindFrom(ws, Tlds[k], 1) IN p # 0 /\ \E j \in 1..(p + Len(Tlds[k]) - 1) : ws[j] = "@"
       cands == { k \in DOMAIN Tlds : ok(k) } IN
   IF ~Has(ws, ".") \/ ~Has(ws, "@") \/ cands = {} THEN <<Sec(t, "", 0)>>
   ELSE LET k == MinOf(cands)
            e == FindFrom(ws, Tlds[k], 1) + Len(Tlds[k]) - 1 IN
        <<Sec(SubSeq(t, 1, e), "E", 0)>> \o (IF e = Len(t) THEN <<>> ELSE EmailSec(SubSeq(t, e + 1, Len(t))))
EmailStage(sl) == Stage(sl, EmailSec)

(* detect_website: for each TLD in order, its first occurrence that is at the end of the section or followed by *)
(* something that is neither a letter nor '.'; occurrences failing that test are skipped (false-positive loop)  *)
RECURSIVE WAccept(_, _, _)
WAccept(ws, tld, from) ==
   LET p == FindFrom(ws, tld, from) IN
   IF p = 0 THEN 0
   ELSE IF p + Len(tld) - 1 = Len(ws) THEN p
   ELSE IF IsA(ws[p + Len(tld)]) \/ ws[p + Len(tld)] = "." THEN WAccept(ws, tld, p + Len(tld))
   ELSE p
Http == <<"h", "t", "t", "p", ":", "/", "/">>
Www == <<"w", "w", "w", ".">>
RECURSIVE WebSec(_)
WebSec(t) ==
   LET ws == LowSeq(t)
       cands == { k \in DOMAIN Tlds : WAccept(ws, Tlds[k], 1) # 0 } IN
   IF ~Has(ws, ".") \/ cands = {} THEN <<Sec(t, "", 0)>>
   ELSE LET tld == Tlds[MinOf(cands)]
            p == WAccept(ws, tld, 1)                    \* 1-based start of the TLD (total_index + 1)
            e == p + Len(tld) - 1                       \* 1-based last character of the TLD
            eou == IF e = Len(ws) THEN e ELSE IF ws[e + 1] = "/" THEN Len(ws) ELSE e          \* end_of_url
            before == SubSeq(ws, 1, p - 1)              \* working_string[:total_index]
            hs == RFind(before, <<".">>)                \* 0-based start_index = rfind('.') + 1 = hs (1-based position of that '.')
            \* prefix searches: rfind in working_string[:start_index + 1] resp. [:start_index]   (0 = not found)
            p1 == RFind(SubSeq(ws, 1, hs + 1), Http \o Www)
            p2 == RFind(SubSeq(ws, 1, hs), Http)
            p3 == RFind(SubSeq(ws, 1, hs), Www)
            sou == IF p1 # 0 THEN p1 ELSE IF p2 # 0 THEN p2 ELSE IF p3 # 0 THEN p3 ELSE 1     \* 1-based start_of_url
        IN (IF sou = 1 THEN <<>> ELSE <<Sec(SubSeq(t, 1, sou - 1), "", 0)>>)                     \* not examined again
           \o <<Sec(SubSeq(ws, sou, eou), "W", 0)>>                                              \* lower-cased text
           \o (IF eou = Len(t) THEN <<>> ELSE WebSec(SubSeq(t, eou + 1, Len(t))))
WebStage(sl) == Stage(sl, WebSec)

(* ---- year_detection: first occurrence (prefix "19" tried before "20") of 19xx / 20xx not touching digits ---- *)
YearAt(t, i, p) == /\ i + 3 <= Len(t) /\ t[i] = p[1] /\ t[i + 1] = p[2]
                   /\ IsD(t[i + 2]) /\ IsD(t[i + 3])
                   /\ (i = 1 \/ ~IsD(t[i - 1])) /\ (i + 4 > Len(t) \/ ~IsD(t[i + 4]))
FirstYear(t) == LET c19 == { i \in 1..Len(t) : YearAt(t, i, <<"1", "9">>) }
                    c20 == { i \in 1..Len(t) : YearAt(t, i, <<"2", "0">>) }
                    mn(S) == CHOOSE i \in S : \A j \in S : i <= j
                IN IF c19 # {} THEN mn(c19) ELSE IF c20 # {} THEN mn(c20) ELSE 0
RECURSIVE YearSec(_)
YearSec(t) == LET i == FirstYear(t) IN
              IF i = 0 THEN <<Sec(t, "", 0)>>
              ELSE (IF i = 1 THEN <<>> ELSE YearSec(SubSeq(t, 1, i - 1)))
                   \o <<Sec(SubSeq(t, i, i + 3), "Y", 1)>>
                   \o (IF i + 4 > Len(t) THEN <<>> ELSE YearSec(SubSeq(t, i + 4, Len(t))))
YearStage(sl) == Stage(sl, YearSec)

(* ---- context_sensitive_detection: first list entry that occurs (its first occurrence); "#1" not followed by ---- *)
(* ---- a digit two places further ("#1" guard of the code: index start+3)                                     ---- *)
Occ(t, r) == { i \in 1..(Len(t) - Len(r) + 1) : SubSeq(t, i, i + Len(r) - 1) = r }
FirstOcc(t, r) == IF Occ(t, r) = {} THEN 0 ELSE CHOOSE i \in Occ(t, r) : \A j \in Occ(t, r) : i <= j
Usable(t, r) == LET i == FirstOcc(t, r) IN
                  i # 0 /\ ~(r = <<"#", "1">> /\ i + 3 <= Len(t) /\ IsD(t[i + 3]))
RECURSIVE CtxSec(_)
CtxSec(t) == LET us == { k \in DOMAIN Context : Usable(t, Context[k]) } IN
             IF us = {} THEN <<Sec(t, "", 0)>>
             ELSE LET k == CHOOSE k \in us : \A j \in us : k <= j
                      r == Context[k]
                      i == FirstOcc(t, r) IN
                  (IF i = 1 THEN <<>> ELSE CtxSec(SubSeq(t, 1, i - 1)))
                  \o <<Sec(r, "X", 1)>>
                  \o (IF i + Len(r) > Len(t) THEN <<>> ELSE CtxSec(SubSeq(t, i + Len(r), Len(t))))
CtxStage(sl) == Stage(sl, CtxSec)

(* ---- alpha / digit: maximal runs ---- *)
RECURSIVE Runs(_, _, _)
Runs(t, P(_), lab) ==
   IF t = <<>> THEN <<>>
   ELSE LET first == P(t[1])
            n == CHOOSE n \in 1..Len(t) : (\A i \in 1..n : P(t[i]) = first) /\ (n = Len(t) \/ P(t[n + 1]) # first)
        IN <<Sec(SubSeq(t, 1, n), IF first THEN lab ELSE "", IF first THEN n ELSE 0)>> \o Runs(SubSeq(t, n + 1, Len(t)), P, lab)
AlphaStage(sl) == Stage(sl, LAMBDA t : Runs(t, IsA, "A"))
DigitStage(sl) == Stage(sl, LAMBDA t : Runs(t, IsD, "D"))
OtherStage(sl) == [i \in DOMAIN sl |-> IF NoLab(sl[i]) THEN Sec(sl[i].t, "O", Len(sl[i].t)) ELSE sl[i]]

Pipeline(pw) == OtherStage(DigitStage(AlphaStage(CtxStage(YearStage(WebStage(EmailStage(KeyboardStage(<<Sec(pw, "", 0)>>))))))))

---------------------------------------------------------------------------
VARIABLES pw, stage, sl
vars == <<pw, stage, sl>>
Strings == UNION { [1..n -> Alphabet] : n \in 1..MaxLen }
Init == pw \in Strings /\ stage = "input" /\ sl = <<Sec(pw, "", 0)>>
Step(from, to, F(_)) == stage = from /\ stage' = to /\ sl' = F(sl) /\ UNCHANGED pw
Next == \/ Step("input", "keyboard", KeyboardStage) \/ Step("keyboard", "email", EmailStage) \/ Step("email", "website", WebStage)
        \/ Step("website", "year", YearStage) \/ Step("year", "context", CtxStage)
        \/ Step("context", "alpha", AlphaStage) \/ Step("alpha", "digit", DigitStage)
        \/ Step("digit", "other", OtherStage)
Spec == Init /\ [][Next]_vars

(* ---- P-layer ---- *)
(* at every stage; website sections hold lower-cased text, everything else the original characters *)
Tiling == /\ LowSeq(Texts(sl)) = LowSeq(pw)
          /\ LET off(i) == Len(Texts(SubSeq(sl, 1, i - 1))) IN
             \A i \in DOMAIN sl : IF sl[i].k = "W" THEN sl[i].t = LowSeq(SubSeq(pw, off(i) + 1, off(i) + Len(sl[i].t)))
                                                     ELSE sl[i].t = SubSeq(pw, off(i) + 1, off(i) + Len(sl[i].t))
NoEmpty == \A i \in DOMAIN sl : sl[i].t # <<>>
Sound(s) == /\ s.k \in {"A", "D", "O"} => s.n = Len(s.t)
            /\ s.k = "A" => \A i \in DOMAIN s.t : IsA(s.t[i])
            /\ s.k = "D" => \A i \in DOMAIN s.t : IsD(s.t[i])
            /\ s.k = "O" => \A i \in DOMAIN s.t : ~IsA(s.t[i]) /\ ~IsD(s.t[i])
            /\ s.k = "Y" => Len(s.t) = 4 /\ (\A i \in 1..4 : IsD(s.t[i])) /\ <<s.t[1], s.t[2]>> \in { <<"1", "9">>, <<"2", "0">> }
            /\ s.k = "X" => \E k \in DOMAIN Context : Context[k] = s.t
            /\ s.k = "E" => Has(s.t, "@") /\ \E k \in DOMAIN Tlds : Len(s.t) >= Len(Tlds[k])
                                                     /\ LowSeq(SubSeq(s.t, Len(s.t) - Len(Tlds[k]) + 1, Len(s.t))) = Tlds[k]
            /\ s.k = "W" => s.t = LowSeq(s.t) /\ \E k \in DOMAIN Tlds : OccFrom(s.t, Tlds[k], 1) # {}
            /\ s.k = "K" => /\ s.n = Len(s.t) /\ Len(s.t) >= 4 /\ ClassCount(s.t) >= 2
                            /\ \E b \in {1, 2} : \A i \in 1..(Len(s.t) - 1) : b \in AdjBoards(s.t[i], s.t[i + 1])
AllSound == \A i \in DOMAIN sl : Sound(sl[i])
AllTyped == stage = "other" => \A i \in DOMAIN sl : ~NoLab(sl[i])
(* digit segments are maximal within what the digit stage was given: no two adjacent D sections, and an *)
(* alpha / digit section never touches an unlabelled neighbour that starts or ends with the same class  *)
NoAdjacentSameRun == stage = "other" =>
      \A i \in 1..(Len(sl) - 1) : ~(sl[i].k = "D" /\ sl[i + 1].k = "D") /\ ~(sl[i].k = "A" /\ sl[i + 1].k = "A")
=============================================================================
