SPECIFICATION Spec
CONSTANTS
  MaxTotal = 400
INVARIANT Determined
INVARIANT Monotone
INVARIANT ZeroIsMax
INVARIANT CertainIsZero
CHECK_DEADLOCK FALSE
