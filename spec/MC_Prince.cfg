SPECIFICATION Spec
CONSTANTS
  MaxUnits = 1
  MaxRun = 3
  Rich = TRUE
  MaxN = 10
  PassLimit = TRUE
  Runs <- MCRuns
  UpTable <- MCUp
INVARIANT LimitExact
INVARIANT PrefixSoFar
INVARIANT ProductOK
CHECK_DEADLOCK FALSE
