SPECIFICATION Spec
CONSTANTS
  D = 8
  R = 16
  MaxEntries = 3
  MaxN = 3
  NTypes = 2
  Lists <- MCLists
  Structs <- MCStructs2
INVARIANT SlotsAreOwners
INVARIANT MeasureProduct
CHECK_DEADLOCK FALSE
