----------------------------- MODULE LineFormat -----------------------------
(***************************************************************************)
(* The line-oriented rule file format over character behaviour classes.    *)
(* A value is a non-empty sequence of classes.  The trainer writes a       *)
(* terminal as  value TAB probability LF  (Alpha, Digits, ... files) and   *)
(* an OMEN n-gram as  level TAB ngram LF  (value last on the line).        *)
(* Readers: "G" guesser _load_from_file, "S" scorer _load_from_file,       *)
(* "OG" guesser OMEN loader, "OS" OmenScorer.  What the input filter       *)
(* rejects, what each reader's line iterator splits on and what it strips  *)
(* from the end of a line are CONSTANTS MEASURED FROM THE REAL FUNCTIONS   *)
(* by the harness on every run (harness/linefmt.py), not written by hand.  *)
(* C07: no accepted value can be put on disk that some reader cannot       *)
(* return unchanged.                                                       *)
(***************************************************************************)
EXTENDS Integers, Sequences, FiniteSets, TLC

CONSTANTS Classes,    \* all behaviour classes
          Rejects,    \* classes the training input filter rejects
          SplitsG, SplitsS, SplitsOG, SplitsOS,   \* classes that break a record for each reader
          StripsOG, StripsOS,                     \* classes lost at the end of a value-last record
          MaxLen

Readers == {"G", "S", "OG", "OS"}
Splits(r) == CASE r = "G" -> SplitsG [] r = "S" -> SplitsS [] r = "OG" -> SplitsOG [] OTHER -> SplitsOS
Strips(r) == CASE r = "OG" -> StripsOG [] r = "OS" -> StripsOS [] OTHER -> {}

Values == UNION { [1..n -> Classes] : n \in 1..MaxLen }
Accepted(v) == \A i \in DOMAIN v : v[i] \notin Rejects

(* what reader r gets back for a record holding value v: the value up to the first class it splits on; *)
(* for value-last records the trailing classes it strips are lost as well                             *)
RECURSIVE UpTo(_, _)
UpTo(v, S) == IF v = <<>> \/ Head(v) \in S THEN <<>> ELSE <<Head(v)>> \o UpTo(Tail(v), S)
RECURSIVE RStrip(_, _)
RStrip(v, S) == IF v # <<>> /\ v[Len(v)] \in S THEN RStrip(SubSeq(v, 1, Len(v) - 1), S) ELSE v
ReadBack(r, v) == RStrip(UpTo(v, Splits(r)), Strips(r))

VARIABLES v, r
vars == <<v, r>>
Init == v \in Values /\ r \in Readers
Next == UNCHANGED vars
Spec == Init /\ [][Next]_vars

RoundTrip == Accepted(v) => ReadBack(r, v) = v
=============================================================================
