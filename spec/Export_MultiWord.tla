--------------------------- MODULE Export_MultiWord ---------------------------
(* writes the count tables and query strings the parse model check quantifies over *)
EXTENDS MC_MultiWord, Json, IOUtils
TableSeq(c) == LET ws == SetToSeq(DOMAIN c) IN [k \in 1..Len(ws) |-> [w |-> ws[k], c |-> c[ws[k]]]]
ASSUME LET ts == SetToSeq(MCCntOK) IN
       JsonSerialize(IOEnv.OUT_FILE, [tables |-> [i \in 1..Len(ts) |-> TableSeq(ts[i])], queries |-> SetToSeq(MCQueries)])
ESpec == (hist = 0 /\ h = 0 /\ pos = 0 /\ idx = 0 /\ run = 0 /\ cnt = 0 /\ q = 0) /\ [][FALSE]_vars
=============================================================================
