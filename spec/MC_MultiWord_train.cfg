SPECIFICATION TrainSpec
CONSTANTS
  Thr = 2
  MinLen = 2
  MaxLen = 4
  Letters = {"a", "b"}
  MaxPwLen = 5
  MaxHist = 2
  MaxQ = 0
  MaxBase = 1
  WordLens = {2}
  Hists <- MCHists
  CntSpace <- NoCnt
  Queries <- NoQ
INVARIANT TrainIsTally
INVARIANT PointerIsRun
CHECK_DEADLOCK FALSE
