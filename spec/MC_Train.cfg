SPECIFICATION Spec
CONSTANTS
  Tallies <- MCTallies
  Coverages <- MCCoverages
INVARIANT TerminalListOK
INVARIANT StructureListOK
CHECK_DEADLOCK FALSE
