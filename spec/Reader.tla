-------------------------------- MODULE Reader --------------------------------
(***************************************************************************)
(* I-layer model of lib_trainer/trainer_file_input.py TrainerFileInput     *)
(* .read_password and the P-layer of C19.                                  *)
(* A training file is a sequence of records (what the user put on one      *)
(* LF-terminated line).  A record is [enc, n, s]: s = the password as a    *)
(* sequence of character classes, n = multiplicity, enc = how it is        *)
(* written: "plain" (s repeated on n lines), "hex" ($HEX[..] repeated),    *)
(* "count" (one line "n s", read with --prefixcount), "counthex".          *)
(* Character classes: "a" ordinary, "sp" space, "c" control character      *)
(* that is not a line boundary for the codec, "L" character the codec's    *)
(* readline treats as a line boundary (VT FF FS GS RS NEL LS PS),          *)
(* "t" TAB, "x" bytes that do not decode.                                  *)
(* Meaning (P-layer): a record denotes n copies of s if s is non-empty and *)
(* contains no "c", "L", "t", "x"; otherwise nothing (and nothing of it    *)
(* may reach the trainer).                                                 *)
(***************************************************************************)
EXTENDS Integers, Sequences, FiniteSets, TLC

CONSTANTS Files,      \* set of files (Seq of records [n, s]); every encoding of each file is explored
          FixJoin     \* TRUE: fragments the codec splits off are re-joined up to the real line end (fix F9b)

Encs == {"plain", "hex", "count", "counthex"}
VARIABLES file, enc, out
vars == <<file, enc, out>>

Bad == {"c", "L", "t", "x"}
Valid(s) == s # <<>> /\ \A i \in DOMAIN s : s[i] \notin Bad
Rep(s, n) == [i \in 1..n |-> s]
RECURSIVE Meant(_)
Meant(f) == IF f = <<>> THEN <<>>
            ELSE (IF Valid(Head(f).s) THEN Rep(Head(f).s, Head(f).n) ELSE <<>>) \o Meant(Tail(f))

(* codec readline: physical lines of a plain text record (the separator stays at the end of its fragment) *)
RECURSIVE Frags(_, _)
Frags(s, acc) == IF s = <<>> THEN (IF acc = <<>> THEN <<>> ELSE <<acc>>)
                 ELSE IF Head(s) = "L" THEN <<Append(acc, "L")>> \o Frags(Tail(s), <<>>)
                 ELSE Frags(Tail(s), Append(acc, Head(s)))
Physical(s) == IF FixJoin \/ s = <<>> THEN <<s>> ELSE Frags(s, <<>>)

(* what one physical line of a plain record yields: check_valid *)
YieldPlain(line, n) == IF Valid(line) THEN Rep(line, n) ELSE <<>>
RECURSIVE Cat(_)
Cat(ss) == IF ss = <<>> THEN <<>> ELSE Head(ss) \o Cat(Tail(ss))

(* read one record as written in encoding e *)
ReadRecord(r, e) ==
   CASE e = "plain" ->    \* n physical copies; each may be split by the codec
          Cat([k \in 1..r.n |-> Cat([j \in DOMAIN Physical(r.s) |-> YieldPlain(Physical(r.s)[j], 1)])])
     [] e = "hex" ->      \* the line is ASCII; the decoded password goes through check_valid as a whole
          Cat([k \in 1..r.n |-> YieldPlain(r.s, 1)])
     [] e = "count" ->    \* "n s": the first fragment carries the count, later fragments fail int() and are skipped
          LET ph == Physical(r.s) IN IF ph = <<>> THEN <<>> ELSE YieldPlain(ph[1], r.n)
     [] OTHER -> YieldPlain(r.s, r.n)

RECURSIVE ReadFile(_, _)
ReadFile(f, e) == IF f = <<>> THEN <<>> ELSE ReadRecord(Head(f), e) \o ReadFile(Tail(f), e)

Init == file \in Files /\ enc \in Encs /\ out = <<>>
Read == out = <<>> /\ out' = <<"done", ReadFile(file, enc)>> /\ UNCHANGED <<file, enc>>
Spec == Init /\ [][Read]_vars

(* C19: every encoding of the same list yields the sequence the list means; nothing of a skipped record leaks *)
EquivalentEncodings == out # <<>> => out[2] = Meant(file)
=============================================================================
