------------------------------- MODULE Expand -------------------------------
(***************************************************************************)
(* The session loop with --limit on top of ExpandDefs (create_guesses):    *)
(* lib_guesser/cracking_session.py run(): `limit -= n; break at <= 0`.     *)
(* One step per pre-terminal of the run.  Properties: C09 (LimitExact,     *)
(* PrefixSoFar) and C04 (ProductOK) for every run in Runs.                 *)
(***************************************************************************)
EXTENDS ExpandDefs

CONSTANTS Runs,      \* set of runs; a run is a sequence of pre-terminals; a pre-terminal a sequence of groups
          MaxN,      \* limits 1..MaxN are explored (and "no limit")
          PassLimit  \* TRUE: the loop hands the remaining count down to create_guesses (pcfg_guesser;
                     \* prince_ling after fix F6).  FALSE: lib_princeling/wordlist_generation.py before the
                     \* fix - `while generated < size: generated += create_guesses(next())`

VARIABLES R, N, ri, rlimit, out, pc
vars == <<R, N, ri, rlimit, out, pc>>

Init == /\ R \in Runs /\ N \in (1..MaxN) \cup {NoLimit}
        /\ ri = 1 /\ rlimit = N /\ out = <<>> /\ pc = "loop"

Step == /\ pc = "loop" /\ ri <= Len(R)
        /\ LET r == CreateGuesses(R[ri], IF PassLimit THEN rlimit ELSE NoLimit) IN
             /\ out' = out \o r.lines
             /\ IF Truthy(rlimit)
                  THEN /\ rlimit' = rlimit - r.n
                       /\ pc' = (IF rlimit - r.n <= 0 THEN "done" ELSE "loop")
                  ELSE /\ rlimit' = rlimit /\ pc' = "loop"
        /\ ri' = ri + 1 /\ UNCHANGED <<R, N>>

Exhausted == /\ pc = "loop" /\ ri > Len(R) /\ pc' = "done" /\ UNCHANGED <<R, N, ri, rlimit, out>>

Next == Step \/ Exhausted
Spec == Init /\ [][Next]_vars

RECURSIVE FullOf(_, _)
FullOf(run, k) == IF k = 0 THEN <<>> ELSE FullOf(run, k - 1) \o CreateGuesses(run[k], NoLimit).lines
Full == FullOf(R, Len(R))

(* C09 *)
LimitExact == pc = "done" =>
                 IF N = NoLimit THEN out = Full
                 ELSE out = SubSeq(Full, 1, Min2(N, Len(Full)))
(* inductive form: what is out so far is always a prefix of the unlimited run, never beyond N *)
PrefixSoFar == /\ IsPrefix(out, Full)
               /\ N # NoLimit => Len(out) <= N
(* C04 on every pre-terminal of the run *)
ProductOK == \A k \in 1..Len(R) : C04_ProductOK(R[k])
=============================================================================
