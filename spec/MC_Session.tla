----------------------------- MODULE MC_Session -----------------------------
EXTENDS Session
PT_A == << [kind |-> "plain", size |-> 2], [kind |-> "omen", size |-> 3], [kind |-> "plain", size |-> 1] >>
PT_B == << [kind |-> "plain", size |-> 1], [kind |-> "omen", size |-> 2], [kind |-> "plain", size |-> 1], [kind |-> "omen", size |-> 2] >>
MCScripts == { <<"block">>, <<"EOF">>, <<"q", "block">>, <<"", "block">>, <<"", "q", "block">>, <<"h", "EOF">> }
(* ---- liveness (C12: "an explicit quit stops ... after the session state has been saved"; a run that is never asked to quit  ---- *)
(* ---- ends by itself): both threads keep taking steps (weak fairness); the user's --load (Reload) is not forced             ---- *)
FairSpec == Spec /\ WF_vars(MainNext) /\ WF_vars(KbdNext)
EverySessionEnds == []<>(mpc = "done")
(* once should_exit is set the process ends, and when it ends the save describes what was written: the save file's guess    *)
(* count is the length of the stream (every session of this configuration starts from an initial or loaded save)            *)
(* - unless the request came while the LAST pre-terminal was being generated: then the run simply completes, nothing is    *)
(* left to save and the save file keeps its earlier content (the harness's histories end there)                              *)
QuitTakesEffect == sexit ~> (mpc = "done" /\ (sav.ng = Len(stream) \/ Len(stream) >= Len(Expected)))
(* a quit typed by the user is not ignored for ever: the keyboard thread hands it over unless the thread died first          *)
TypedQuitIsSeen == (kline = "q" /\ kpc = "status" /\ ~placeholder) ~> (sexit \/ mpc = "done")
=============================================================================
