----------------------------- MODULE MC_Session -----------------------------
EXTENDS Session
PT_A == << [kind |-> "plain", size |-> 2], [kind |-> "omen", size |-> 3], [kind |-> "plain", size |-> 1] >>
PT_B == << [kind |-> "plain", size |-> 1], [kind |-> "omen", size |-> 2], [kind |-> "plain", size |-> 1], [kind |-> "omen", size |-> 2] >>
MCScripts == { <<"block">>, <<"EOF">>, <<"q", "block">>, <<"", "block">>, <<"", "q", "block">>, <<"h", "EOF">> }
=============================================================================
