------------------------------- MODULE TrLine -------------------------------
(***************************************************************************)
(* P-layer trace specification for C07 (and the ruleset-identity part of   *)
(* C19).                                                                   *)
(*  kind "file"   T.want = the records of one rule file as the harness's   *)
(*                LF-only neutral reader sees them ([value code points,    *)
(*                probability/level rank]); T.got = what one real loader   *)
(*                (T.reader) returned for that file                        *)
(*  kind "config" file lists named in config.ini vs files present          *)
(*  kind "same"   two rulesets that must be identical: per-file digests    *)
(*                (T.a, T.b as sequences of [name id, digest id])          *)
(*  kind "seq"    password sequences the trainer's passes saw              *)
(***************************************************************************)
EXTENDS Integers, Sequences, FiniteSets, TLC, TLCExt, Json, IOUtils

Traces == TLCEval(ndJsonDeserialize(IOEnv.TRACE_FILE))
NT == Len(Traces)
VARIABLES tid, l
tvars == <<tid, l>>
T == Traces[tid]

BagOfSeq(s) == [x \in { s[i] : i \in DOMAIN s } |-> Cardinality({ i \in DOMAIN s : s[i] = x })]
ToSet(s) == { s[i] : i \in DOMAIN s }

NClauses == CASE T.kind = "file" -> 3 [] T.kind = "config" -> 2 [] T.kind = "same" -> 1 [] OTHER -> 4
ClauseName(k) ==
  CASE T.kind = "file"   -> <<"C07_loader_succeeds", "C07_every_value_read_back", "C07_nothing_else_read">>[k]
    [] T.kind = "config" -> <<"C07_listed_files_exist", "C07_existing_files_listed">>[k]
    [] T.kind = "same"   -> <<"C19_rulesets_identical">>[k]
    [] OTHER             -> <<"C19_equivalent_encodings_same_sequence", "C19_three_passes_same_sequence",
                              "C19_skipped_records_do_not_leak", "C19_counts">>[k]
ClauseHolds(k) ==
  CASE T.kind = "file" /\ k = 1 -> T.ok
    [] T.kind = "file" /\ k = 2 -> \A i \in DOMAIN T.want : \E j \in DOMAIN T.got : T.got[j] = T.want[i]
    [] T.kind = "file" /\ k = 3 -> BagOfSeq(T.got) = BagOfSeq(T.want)
    [] T.kind = "config" /\ k = 1 -> ToSet(T.listed) \subseteq ToSet(T.present)
    [] T.kind = "config" /\ k = 2 -> ToSet(T.present) \subseteq ToSet(T.listed)
    [] T.kind = "same" -> T.a = T.b
    [] T.kind = "seq" /\ k = 1 -> \A i \in DOMAIN T.variants : T.variants[i] = T.plain
    [] T.kind = "seq" /\ k = 2 -> T.pass2 = T.pass1 /\ T.pass3 = T.pass1
    [] T.kind = "seq" /\ k = 3 -> \A i \in DOMAIN T.plain : \E j \in DOMAIN T.meant : T.meant[j] = T.plain[i]
    [] T.kind = "seq" /\ k = 4 -> T.counts_ok

Failing == SelectSeq([k \in 1..NClauses |-> IF ClauseHolds(k) = TRUE THEN "" ELSE ClauseName(k)], LAMBDA x : x # "")
TInit == tid \in 1..NT /\ l = 1
TStep == /\ l = 1 /\ l' = 2 /\ UNCHANGED tid
TSpec == TInit /\ [][TStep]_tvars
Report == l = 1 => IF Failing = <<>> THEN PrintT(<<"ACCEPT", T.tid>>) ELSE PrintT(<<"STUCK", T.tid, Failing>>)
=============================================================================
