SPECIFICATION Spec
CONSTANTS
  MaxPw = 2
  MaxList = 2
  MaxCand = 3
INVARIANT TrainingReproduced
INVARIANT SumsToOne
INVARIANT PromiseKept
INVARIANT ScoreOfGuess
INVARIANT OnlyOwnStructure
INVARIANT TablesSumToOne
CHECK_DEADLOCK FALSE
