-------------------------------- MODULE TrSeg --------------------------------
(***************************************************************************)
(* P-layer trace specification for C05 (and the segmentation facts C03 /   *)
(* C06 / C13 build on): one real PCFGPasswordParser.parse(password).       *)
(* The harness rebinds the detector names in the parser's namespace to     *)
(* snapshotting wrappers, so a trace carries the section list after every  *)
(* stage.  Characters are ids local to the trace with attributes computed  *)
(* by Python's str methods:                                                *)
(*   T.attr[c] = [a isalpha, d isdigit, u isupper, lo lower() as ids,      *)
(*                kb Seq(<<board, row, pos>>)]                             *)
(*   T.pw                password as ids                                   *)
(*   T.snaps[i] = [st stage name, sl Seq([t ids, k kind "" = unlabelled,   *)
(*                n number])]  in pipeline order                           *)
(*   T.cnt       multi-word history: <<word ids, count>> of every base     *)
(*               word seen so far (computed by the harness, not by the     *)
(*               detector); T.thr threshold; T.minlen minimum word length  *)
(*   T.ctx       the fixed context-sensitive strings (ids) present         *)
(*   T.delta     what parse() added to the trainer's counters:             *)
(*               [c counter, n length index, key ids / label codes, v]     *)
(*   T.raised    parse() raised                                            *)
(***************************************************************************)
EXTENDS Integers, Sequences, FiniteSets, TLC, TLCExt, Json, IOUtils, SequencesExt

Traces == TLCEval(ndJsonDeserialize(IOEnv.TRACE_FILE))
NT == Len(Traces)
VARIABLES tid, l
tvars == <<tid, l>>
T == Traces[tid]

IsA(c) == T.attr[c].a
IsD(c) == T.attr[c].d
IsU(c) == T.attr[c].u
Low(s) == FlattenSeq([i \in DOMAIN s |-> T.attr[s[i]].lo])
Texts(sl) == FlattenSeq([i \in DOMAIN sl |-> sl[i].t])
NoLab(sec) == sec.k = ""
Snap(name) == T.snaps[CHOOSE i \in DOMAIN T.snaps : T.snaps[i].st = name].sl
Final == T.snaps[Len(T.snaps)].sl
HasW(sl) == \E i \in DOMAIN sl : sl[i].k = "W"

(* ---- lossless tiling: the sections spell `orig` left to right; ONLY website sections hold lower-cased text ---- *)
RECURSIVE Tile(_, _)
Tile(orig, sl) ==
   IF sl = <<>> THEN orig = <<>>
   ELSE IF sl[1].k = "W"
          THEN \E n \in 0..Len(orig) : Low(SubSeq(orig, 1, n)) = sl[1].t /\ Tile(SubSeq(orig, n + 1, Len(orig)), Tail(sl))
          ELSE /\ Len(sl[1].t) <= Len(orig) /\ SubSeq(orig, 1, Len(sl[1].t)) = sl[1].t
               /\ Tile(SubSeq(orig, Len(sl[1].t) + 1, Len(orig)), Tail(sl))

(* ---- every stage only refines unlabelled sections into parts that tile them ---- *)
RECURSIVE Refines(_, _)
Refines(a, b) ==
   IF a = <<>> THEN b = <<>>
   ELSE IF ~NoLab(a[1]) THEN b # <<>> /\ b[1] = a[1] /\ Refines(Tail(a), Tail(b))
   ELSE \E k \in 1..Len(b) :
            /\ Tile(a[1].t, SubSeq(b, 1, k))
            /\ Refines(Tail(a), SubSeq(b, k + 1, Len(b)))

(* ---- exact stages: digit (first maximal digit run of every unlabelled section, repeatedly = all runs) and other ---- *)
RECURSIVE Runs(_, _, _)
Runs(t, P(_), lab) ==
   IF t = <<>> THEN <<>>
   ELSE LET first == P(t[1])
            n == CHOOSE n \in 1..Len(t) : (\A i \in 1..n : P(t[i]) = first) /\ (n = Len(t) \/ P(t[n + 1]) # first)
        IN <<[t |-> SubSeq(t, 1, n), k |-> (IF first THEN lab ELSE ""), n |-> (IF first THEN n ELSE 0)]>>
           \o Runs(SubSeq(t, n + 1, Len(t)), P, lab)
StageRuns(sl, P(_), lab) == FlattenSeq([i \in DOMAIN sl |-> IF NoLab(sl[i]) THEN Runs(sl[i].t, P, lab) ELSE <<sl[i]>>])
DigitStage(sl) == StageRuns(sl, IsD, "D")
OtherStage(sl) == [i \in DOMAIN sl |-> IF NoLab(sl[i]) THEN [t |-> sl[i].t, k |-> "O", n |-> Len(sl[i].t)] ELSE sl[i]]

(* ---- keyboard adjacency on one layout (geometry of the key grid) ---- *)
Adj(p, q) == /\ p[1] = q[1]
             /\ \/ (p[2] = q[2] /\ (q[3] = p[3] - 1 \/ q[3] = p[3] + 1))
                \/ (q[2] = p[2] + 1 /\ (q[3] = p[3] \/ q[3] = p[3] - 1))
                \/ (q[2] = p[2] - 1 /\ (q[3] = p[3] \/ q[3] = p[3] + 1))
Boards == {1, 2}
ToSetKb(s) == { s[i] : i \in DOMAIN s }
WalkOn(t, b) == \A i \in 1..(Len(t) - 1) :
                   \E p \in ToSetKb(T.attr[t[i]].kb), q \in ToSetKb(T.attr[t[i + 1]].kb) : p[1] = b /\ Adj(p, q)
Classes(t) == (IF \E i \in DOMAIN t : IsA(t[i]) THEN 1 ELSE 0) + (IF \E i \in DOMAIN t : IsD(t[i]) THEN 1 ELSE 0)
              + (IF \E i \in DOMAIN t : ~IsA(t[i]) /\ ~IsD(t[i]) THEN 1 ELSE 0)

(* ---- multi-word history ---- *)
Cnt(w) == IF \E i \in DOMAIN T.cnt : T.cnt[i][1] = w
            THEN T.cnt[CHOOSE i \in DOMAIN T.cnt : T.cnt[i][1] = w][2] ELSE 0

(* ---- soundness of one final section ---- *)
Sound(sec) ==
   /\ sec.t # <<>> /\ ~NoLab(sec)
   /\ sec.k \in {"A", "D", "O", "K"} => sec.n = Len(sec.t)
   /\ sec.k = "D" => \A i \in DOMAIN sec.t : IsD(sec.t[i])
   /\ sec.k = "A" => \A i \in DOMAIN sec.t : IsA(sec.t[i])
   /\ sec.k = "O" => \A i \in DOMAIN sec.t : ~IsA(sec.t[i]) /\ ~IsD(sec.t[i])
   /\ sec.k = "Y" => /\ Len(sec.t) = 4 /\ \A i \in 1..4 : IsD(sec.t[i])
                     /\ <<sec.t[1], sec.t[2]>> \in { <<T.one, T.nine>>, <<T.two, T.zero>> }
   /\ sec.k = "K" => /\ Len(sec.t) >= 4 /\ Classes(sec.t) >= 2
                     /\ \E b \in Boards : WalkOn(sec.t, b)
   /\ sec.k = "X" => \E i \in DOMAIN T.ctx : T.ctx[i] = sec.t
(* adjacent alpha sections are a multi-word split *)
AlphaGroups == { <<i, j>> \in (DOMAIN Final) \X (DOMAIN Final) :
                   /\ i <= j /\ \A m \in i..j : Final[m].k = "A"
                   /\ (i = 1 \/ Final[i - 1].k # "A") /\ (j = Len(Final) \/ Final[j + 1].k # "A") }
MultiOK == \A g \in AlphaGroups :
              g[1] < g[2] =>
                 /\ \A m \in g[1]..g[2] : Cnt(Low(Final[m].t)) >= T.thr
                 /\ Cnt(Low(Texts(SubSeq(Final, g[1], g[2])))) < T.thr
(* digit runs are maximal within the section the digit stage was given *)
DigitMaximal == Snap("digit_detection") = DigitStage(Snap("alpha_detection"))

(* ---- counters are the tallies of the final segmentation ---- *)
BagOfSeq(s) == [x \in { s[i] : i \in DOMAIN s } |-> Cardinality({ i \in DOMAIN s : s[i] = x })]
SecsOf(kind) == SelectSeq(Final, LAMBDA s : s.k = kind)
Delta(name) == LET d == SelectSeq(T.delta, LAMBDA r : r.c = name) IN
               FlattenSeq([i \in DOMAIN d |-> [j \in 1..d[i].v |-> <<d[i].n, d[i].key>>]])
Mask(t) == [i \in DOMAIN t |-> IF IsU(t[i]) THEN 1 ELSE 0]
TallyOK ==
   /\ BagOfSeq(Delta("alpha")) = BagOfSeq([i \in DOMAIN SecsOf("A") |-> <<Len(SecsOf("A")[i].t), Low(SecsOf("A")[i].t)>>])
   /\ BagOfSeq(Delta("mask"))  = BagOfSeq([i \in DOMAIN SecsOf("A") |-> <<Len(SecsOf("A")[i].t), Mask(SecsOf("A")[i].t)>>])
   /\ BagOfSeq(Delta("digit")) = BagOfSeq([i \in DOMAIN SecsOf("D") |-> <<Len(SecsOf("D")[i].t), SecsOf("D")[i].t>>])
   /\ BagOfSeq(Delta("other")) = BagOfSeq([i \in DOMAIN SecsOf("O") |-> <<Len(SecsOf("O")[i].t), SecsOf("O")[i].t>>])
   /\ BagOfSeq(Delta("keyboard")) = BagOfSeq([i \in DOMAIN SecsOf("K") |-> <<Len(SecsOf("K")[i].t), SecsOf("K")[i].t>>])
   /\ BagOfSeq(Delta("year")) = BagOfSeq([i \in DOMAIN SecsOf("Y") |-> <<0, SecsOf("Y")[i].t>>])
   /\ BagOfSeq(Delta("context")) = BagOfSeq([i \in DOMAIN SecsOf("X") |-> <<0, SecsOf("X")[i].t>>])
LabelCodes == [i \in DOMAIN Final |-> <<Final[i].k, Final[i].n>>]
Supported == \A i \in DOMAIN Final : Final[i].k \notin {"E", "W"}
StructOK ==
   /\ T.raw = LabelCodes                                     \* the raw structure list gets every structure
   /\ T.base = (IF Supported THEN LabelCodes ELSE <<>>)      \* e-mail / website structures only in the raw list
   /\ BagOfSeq(T.prince) = BagOfSeq(LabelCodes)

NClauses == 9
ClauseName(k) == <<"C05_parse_never_raises", "C05_tiling", "C05_every_stage_refines", "C05_no_empty_or_untyped_segment_and_labels_sound",
                   "C05_digit_runs_maximal", "C05_other_stage_labels_the_rest", "C05_multiword_split_only_base_words",
                   "C05_counters_are_tallies", "C05_structure_counters">>[k]
ClauseHolds(k) ==
  CASE k = 1 -> ~T.raised
    [] k = 2 -> T.raised \/ Tile(T.pw, Final)
    [] k = 3 -> T.raised \/ \A i \in 1..(Len(T.snaps) - 1) : Refines(T.snaps[i].sl, T.snaps[i + 1].sl)
    [] k = 4 -> T.raised \/ \A i \in DOMAIN Final : Sound(Final[i])
    [] k = 5 -> T.raised \/ DigitMaximal
    [] k = 6 -> T.raised \/ Snap("other_detection") = OtherStage(Snap("digit_detection"))
    [] k = 7 -> T.raised \/ MultiOK
    [] k = 8 -> T.raised \/ TallyOK
    [] k = 9 -> T.raised \/ StructOK

Failing == SelectSeq([k \in 1..NClauses |-> IF ClauseHolds(k) = TRUE THEN "" ELSE ClauseName(k)], LAMBDA x : x # "")
TInit == tid \in 1..NT /\ l = 1
TStep == /\ l = 1 /\ l' = 2 /\ UNCHANGED tid
TSpec == TInit /\ [][TStep]_tvars
Report == l = 1 => IF Failing = <<>> THEN PrintT(<<"ACCEPT", T.tid>>) ELSE PrintT(<<"STUCK", T.tid, Failing>>)
=============================================================================
