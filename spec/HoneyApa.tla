------------------------------ MODULE HoneyApa ------------------------------
(***************************************************************************)
(* Symbolic check with Apalache (apalache-mc check --init=Init --inv=...   *)
(* --length=0): the cumulative loop of random_walk selects the owner of    *)
(* the draw for EVERY list of up to MaxK entries with ARBITRARY positive   *)
(* integer masses, arbitrary denominator d and resolution r (unbounded     *)
(* integers) - the bound of TLC's MC_Honey (D = 8 / 16) removed.           *)
(***************************************************************************)
EXTENDS HoneyFold

CONSTANT
  \* @type: Int;
  MaxK

VARIABLES
  \* @type: Seq(Int);
  mass,
  \* @type: Int;
  d,
  \* @type: Int;
  r,
  \* @type: Int;
  t

CInit == MaxK = 8
Init == /\ mass = Gen(MaxK)
        /\ d \in Int /\ r \in Int /\ t \in Int
        /\ Len(mass) >= 1 /\ Len(mass) <= MaxK
        /\ \A i \in DOMAIN mass : mass[i] > 0
        /\ d > 0 /\ r > 0 /\ t >= 0 /\ t < r
        /\ CumA(mass, Len(mass)) = d
Next == UNCHANGED <<mass, d, r, t>>

\* owner: the j with Cum(j-1)/d < t/r <= Cum(j)/d ; the draw 0 belongs to the first entry
IsOwner(j) == IF t = 0 THEN j = 1 ELSE CumA(mass, j - 1) * r < t * d /\ t * d <= CumA(mass, j) * r
WalkIsOwnerA == LET w == WalkA(mass, t, d, r) IN w \in DOMAIN mass /\ IsOwner(w)
\* and the owner is unique, so "the chance of entry j is mass[j] / d" follows: the draws selecting j are exactly (Cum(j-1), Cum(j)]
OwnerUniqueA == \A i, j \in DOMAIN mass : (IsOwner(i) /\ IsOwner(j)) => i = j
=============================================================================
