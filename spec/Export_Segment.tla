--------------------------- MODULE Export_Segment ---------------------------
(* spec -> code: evaluates Segment!Pipeline on the strings listed in IN_FILE (JSON list of lists of 1-character
   strings) and writes the resulting section lists to OUT_FILE; the harness compares them with what the real
   parser produced for the same strings. *)
EXTENDS Segment, Json, IOUtils
In == JsonDeserialize(IOEnv.IN_FILE)
ASSUME JsonSerialize(IOEnv.OUT_FILE, [i \in DOMAIN In |-> Pipeline(In[i])])
ESpec == (pw = <<>> /\ stage = "x" /\ sl = <<>>) /\ [][FALSE]_vars
=============================================================================
