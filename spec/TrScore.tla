------------------------------- MODULE TrScore -------------------------------
(***************************************************************************)
(* P-layer trace specification for C13: one trained ruleset, the real      *)
(* scorer and the real guesser.                                            *)
(*  T.cands[i] = [s, r, cat, dr, ew, again]                                *)
(*     s     id of the candidate string                                    *)
(*     r     rank of the PCFG probability the scorer assigned (0 = zero);  *)
(*           ranks cluster floats within relative 1e-9                     *)
(*     cat   the scorer's category letter                                  *)
(*     dr    ranks of the probabilities of every pre-terminal of the real  *)
(*           guesser (default run) that emits exactly this string          *)
(*     ew    "e" / "w" / "" : an e-mail / website is detected in s (the    *)
(*           detectors run separately by the harness)                      *)
(*     again rank assigned when the same string is scored a second time,   *)
(*           after other strings                                           *)
(***************************************************************************)
EXTENDS Integers, Sequences, FiniteSets, TLC, TLCExt, Json, IOUtils

Traces == TLCEval(ndJsonDeserialize(IOEnv.TRACE_FILE))
NT == Len(Traces)
VARIABLES tid, l
tvars == <<tid, l>>
T == Traces[tid]
ToSet(s) == { s[i] : i \in DOMAIN s }

NClauses == 3
ClauseName(k) == <<"C13_nonzero_score_is_a_guess_of_that_probability", "C13_email_website_classified_and_zero",
                   "C13_score_depends_only_on_string_and_ruleset">>[k]
Bad(k) == CASE k = 1 -> { i \in DOMAIN T.cands : T.cands[i].r # 0 /\ T.cands[i].r \notin ToSet(T.cands[i].dr) }
            [] k = 2 -> { i \in DOMAIN T.cands : T.cands[i].ew # "" /\ ~(T.cands[i].cat = T.cands[i].ew /\ T.cands[i].r = 0) }
            [] k = 3 -> { i \in DOMAIN T.cands : T.cands[i].again # T.cands[i].r }
Failing == SelectSeq([k \in 1..NClauses |-> IF Bad(k) = {} THEN <<>> ELSE <<ClauseName(k), Bad(k)>>], LAMBDA x : x # <<>>)
TInit == tid \in 1..NT /\ l = 1
TStep == /\ l = 1 /\ l' = 2 /\ UNCHANGED tid
TSpec == TInit /\ [][TStep]_tvars
Report == l = 1 => IF Failing = <<>> THEN PrintT(<<"ACCEPT", T.tid>>) ELSE PrintT(<<"STUCK", T.tid, Failing>>)
=============================================================================
