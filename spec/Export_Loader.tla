---------------------------- MODULE Export_Loader ----------------------------
EXTENDS MC_Loader, Json, IOUtils, SequencesExt
ASSUME JsonSerialize(IOEnv.OUT_FILE, SetToSeq(MCFiles))
ESpec == (file = 0 /\ skip = 0 /\ phase = 0 /\ cursor = 0 /\ total = 0 /\ out = 0 /\ failed = 0) /\ [][FALSE]_vars
=============================================================================
