SPECIFICATION TSpec
CONSTANTS
  PT <- PTData
  Scripts = {}
  MaxSess = 99
  FixChk = TRUE
  FixStale = TRUE
  FixLast = TRUE
INVARIANT Report
CHECK_DEADLOCK FALSE
