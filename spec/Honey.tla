-------------------------------- MODULE Honey --------------------------------
(***************************************************************************)
(* I-layer model of PcfgGrammar.random_walk (lib_guesser/pcfg_grammar.py)  *)
(* and the P-layer of C16: the walk is a piecewise constant function of    *)
(* its uniform draws whose pieces have exactly the ruleset's measures.     *)
(* Probabilities are integers over the common denominator D: a list is a   *)
(* sequence of entries [w |-> weight of ONE value, n |-> number of values  *)
(* sharing it] with  Sum(w * n) = D  (base structures have n = 1).         *)
(* A draw u stands for the real number u / R (R a multiple of D, so that   *)
(* points strictly between breakpoints exist).                             *)
(***************************************************************************)
EXTENDS HoneyDefs, TLC

CONSTANTS Lists,   \* set of lists to explore
          D,       \* denominator of the probabilities
          R        \* resolution of the draws: u in 0..R-1 stands for u / R   (random.random() < 1)

VARIABLES lst, u
vars == <<lst, u>>
Init == lst \in Lists /\ u \in 0..(R - 1)
Next == UNCHANGED vars
Spec == Init /\ [][Next]_vars

Walk(l, t) == WalkDR(l, t, D, R)           \* I-layer: the accumulation loop (HoneyDefs)
Owner(l, t) == OwnerDR(l, t, D, R)         \* P-layer: owner of the draw
WellFormed(l) == WellFormedD(l, D)

(* C16: the walk selects the owner of the draw, hence entry j is drawn with probability Mass(j)/D, and   *)
(* each of its n values (uniform pick) with probability w/D                                           *)
WalkIsOwner == WellFormed(lst) => Walk(lst, u) = Owner(lst, u)
Measure(l, j) == Cardinality({ t \in 1..R : Walk(l, t) = j })     \* draws in (0, 1] on the grid
MeasureExact == WellFormed(lst) => \A j \in DOMAIN lst : Measure(lst, j) * D = Mass(lst[j]) * R
=============================================================================
