-------------------------------- MODULE Honey --------------------------------
(***************************************************************************)
(* I-layer model of PcfgGrammar.random_walk (lib_guesser/pcfg_grammar.py)  *)
(* and the P-layer of C16: the walk is a piecewise constant function of    *)
(* its uniform draws whose pieces have exactly the ruleset's measures.     *)
(* Probabilities are integers over the common denominator D: a list is a   *)
(* sequence of entries [w |-> weight of ONE value, n |-> number of values  *)
(* sharing it] with  Sum(w * n) = D  (base structures have n = 1).         *)
(* A draw u stands for the real number u / R (R a multiple of D, so that   *)
(* points strictly between breakpoints exist).                             *)
(***************************************************************************)
EXTENDS Integers, Sequences, FiniteSets, TLC

CONSTANTS Lists,   \* set of lists to explore
          D,       \* denominator of the probabilities
          R        \* resolution of the draws: u in 0..R-1 stands for u / R   (random.random() < 1)

VARIABLES lst, u
vars == <<lst, u>>
Init == lst \in Lists /\ u \in 0..(R - 1)
Next == UNCHANGED vars
Spec == Init /\ [][Next]_vars

Mass(e) == e.w * e.n
RECURSIVE Cum(_, _)
Cum(l, j) == IF j = 0 THEN 0 ELSE Cum(l, j - 1) + Mass(l[j])

(* the loop of random_walk:  cur_prob += prob * len(values); if cur_prob >= prob_target: pick, break   *)
(* (comparison of cur/D with u/R done in integers); index 1 stays selected if the loop never breaks   *)
RECURSIVE WalkFrom(_, _, _, _)
WalkFrom(l, j, cur, t) == IF j > Len(l) THEN 1
                          ELSE IF (cur + Mass(l[j])) * R >= t * D THEN j
                          ELSE WalkFrom(l, j + 1, cur + Mass(l[j]), t)
Walk(l, t) == WalkFrom(l, 1, 0, t)

(* P-layer: entry j owns the half-open interval (Cum(j-1)/D, Cum(j)/D]; 0 belongs to the first entry *)
Owner(l, t) == IF t = 0 THEN 1
               ELSE CHOOSE j \in 1..Len(l) : Cum(l, j - 1) * R < t * D /\ t * D <= Cum(l, j) * R
WellFormed(l) == Cum(l, Len(l)) = D /\ \A j \in DOMAIN l : l[j].w > 0 /\ l[j].n > 0

(* C16: the walk selects the owner of the draw, hence entry j is drawn with probability Mass(j)/D, and   *)
(* each of its n values (uniform pick) with probability w/D                                           *)
WalkIsOwner == WellFormed(lst) => Walk(lst, u) = Owner(lst, u)
Measure(l, j) == Cardinality({ t \in 1..R : Walk(l, t) = j })     \* draws in (0, 1] on the grid
MeasureExact == WellFormed(lst) => \A j \in DOMAIN lst : Measure(lst, j) * D = Mass(lst[j]) * R
=============================================================================
