SPECIFICATION FairSpec
CONSTANTS
  NTypes = 2
  MaxGroups = 2
  MaxW = 3
  MaxLen = 2
  MaxStructs = 2
  MaxBW = 2
  MaxCycles = 0
  StrictParent = FALSE
  Grammars <- MCGrammars
PROPERTY Terminates
INVARIANT NoDupFresh
INVARIANT NothingLost
CHECK_DEADLOCK FALSE
