SPECIFICATION Spec
CONSTANTS
  D = 8
  R = 32
  MaxEntries = 3
  MaxN = 3
  Lists <- MCLists
INVARIANT WalkIsOwner
INVARIANT MeasureExact
INVARIANT FoldIsLoop
CHECK_DEADLOCK FALSE
